"""Translator: regenerates lean/ERP/Gen/*.lean from the working tree of /repo.

* every regular expression of GcodeParser.py / RetractionState.py and the default @-command
  patterns -> values of the Lean regex AST (via re._parser)
* numeric constants, handler names, event sets, API command table, settings defaults,
  attributes assigned by resetState  (via import and ast)

A construct it cannot translate raises TranslateError: the tie to the source is then broken.
"""
import ast
import os
import sys
import math

sys.dont_write_bytecode = True
REPO = os.environ.get("ERP_SRC", "/repo")
sys.path.insert(0, REPO)

try:
    import re._parser as sre_parse
    import re._constants as C
except ImportError:  # pragma: no cover
    import sre_parse
    import sre_constants as C
import re  # noqa: E402


class TranslateError(Exception):
    pass


def cls_items(items):
    neg = False
    out = []
    for op, av in items:
        if op is C.NEGATE:
            neg = True
        elif op is C.LITERAL:
            out.append(".lit (Char.ofNat %d)" % av)
        elif op is C.RANGE:
            out.append(".range (Char.ofNat %d) (Char.ofNat %d)" % av)
        elif op is C.CATEGORY:
            name = str(av).split("_", 1)[1].lower()
            if name not in ("digit", "space", "not_digit", "not_space"):
                raise TranslateError("unsupported category %s" % av)
            out.append(".cat \"%s\"" % name)
        else:
            raise TranslateError("unsupported class item %s" % op)
    return neg, out


def seq(parts):
    if not parts:
        return "Re.eps"
    r = parts[-1]
    for p in reversed(parts[:-1]):
        r = "(.seq %s %s)" % (p, r)
    return r


def tr(sub):
    parts = []
    for op, av in sub:
        if op is C.LITERAL:
            parts.append("(.chars false [.lit (Char.ofNat %d)])" % av)
        elif op is C.NOT_LITERAL:
            parts.append("(.chars true [.lit (Char.ofNat %d)])" % av)
        elif op is C.ANY:
            parts.append("(.chars true [.lit (Char.ofNat 10)])")
        elif op is C.IN:
            neg, items = cls_items(av)
            parts.append("(.chars %s [%s])" % ("true" if neg else "false", ", ".join(items)))
        elif op in (C.MAX_REPEAT, C.MIN_REPEAT):
            lo, hi, body = av
            his = "none" if hi == C.MAXREPEAT else "(some %d)" % hi
            parts.append("(.rep %s %d %s %s)" % (
                "true" if op is C.MAX_REPEAT else "false", lo, his, tr(body)))
        elif op is C.SUBPATTERN:
            gid, af, df, body = av
            if af or df:
                raise TranslateError("inline flags are not supported")
            parts.append("(.group %d %s)" % (gid, tr(body)) if gid is not None else tr(body))
        elif op is C.BRANCH:
            alts = [tr(a) for a in av[1]]
            r = alts[-1]
            for a in reversed(alts[:-1]):
                r = "(.alt %s %s)" % (a, r)
            parts.append(r)
        elif op is C.AT:
            parts.append("(.at \"%s\")" % str(av).split("_", 1)[1].lower())
        else:
            raise TranslateError("unsupported regex construct %s" % op)
    return seq(parts)


# ---- wire format of a regex for the driver's line protocol (custom @-command patterns):
# prefix notation, tokens joined by '.'
AT_KINDS = ["beginning", "beginning_string", "end", "end_string"]


def wire(sub):
    parts = []
    for op, av in sub:
        if op is C.LITERAL:
            parts.append(["C0", "1", "l%d" % av])
        elif op is C.NOT_LITERAL:
            parts.append(["C1", "1", "l%d" % av])
        elif op is C.ANY:
            parts.append(["C1", "1", "l10"])
        elif op is C.IN:
            neg = False
            items = []
            for o2, a2 in av:
                if o2 is C.NEGATE:
                    neg = True
                elif o2 is C.LITERAL:
                    items.append("l%d" % a2)
                elif o2 is C.RANGE:
                    items.append("r%d_%d" % a2)
                elif o2 is C.CATEGORY and str(a2).endswith("CATEGORY_DIGIT"):
                    items.append("d")
                elif o2 is C.CATEGORY and str(a2).endswith("CATEGORY_SPACE"):
                    items.append("s")
                else:
                    raise TranslateError("unsupported class item %s %s" % (o2, a2))
            parts.append(["C%d" % (1 if neg else 0), str(len(items))] + items)
        elif op in (C.MAX_REPEAT, C.MIN_REPEAT):
            lo, hi, body = av
            parts.append(["R%d" % (1 if op is C.MAX_REPEAT else 0), str(lo),
                          "N" if hi == C.MAXREPEAT else str(hi)] + wire(body))
        elif op is C.SUBPATTERN:
            gid, af, df, body = av
            if af or df:
                raise TranslateError("inline flags are not supported")
            parts.append((["G%d" % gid] if gid is not None else []) + wire(body))
        elif op is C.BRANCH:
            alts = [wire(a) for a in av[1]]
            r = alts[-1]
            for a in reversed(alts[:-1]):
                r = ["A"] + a + r
            parts.append(r)
        elif op is C.AT:
            parts.append(["B%d" % AT_KINDS.index(str(av).split("_", 1)[1].lower())])
        else:
            raise TranslateError("unsupported regex construct %s" % op)
    if not parts:
        return ["E"]
    r = parts[-1]
    for q in reversed(parts[:-1]):
        r = ["S"] + q + r
    return r


def wire_pattern(pattern):
    rx = re.compile(pattern)
    if rx.flags & ~re.UNICODE:
        raise TranslateError("regex flags %r are not supported" % rx.flags)
    return ".".join(wire(sre_parse.parse(rx.pattern, rx.flags)))


def translate_regex(rx):
    if rx.flags & ~re.UNICODE:
        raise TranslateError("regex flags %r are not supported" % rx.flags)
    return tr(sre_parse.parse(rx.pattern, rx.flags)), rx.groups


def lean_str(s):
    return '"' + "".join(
        c if (32 <= ord(c) < 127 and c not in '"\\') else "\\u{%x}" % ord(c) for c in s) + '"'


def gen_regexes():
    import importlib
    G = importlib.import_module("octoprint_excluderegion.GcodeParser")
    RS = importlib.import_module("octoprint_excluderegion.RetractionState")
    out = ["import ERP.Model.Regex", "/-! GENERATED by harness/translate.py from /repo — do not edit -/",
           "open ERP.Rx", "namespace ERP.Gen"]
    for name, rx in [("gcodeLine", G.REGEX_GCODE_LINE), ("gcodeCode", G.REGEX_GCODE_CODE),
                     ("parameters", G.REGEX_PARAMETERS), ("paramOrStr", G.REGEX_PARAMETER_OR_STR),
                     ("retractParams", RS.GCODE_PARAMS_REGEX)]:
        t, n = translate_regex(rx)
        out.append("def %s : Re := %s" % (name, t))
        out.append("def %sGroups : Nat := %d" % (name, n))
    # default @-command patterns
    import octoprint_excluderegion as pkg
    defaults = pkg.ExcludeRegionPlugin().get_settings_defaults()
    ats = []
    for i, a in enumerate(defaults["atCommandActions"]):
        t, _n = translate_regex(re.compile(a["parameterPattern"]))
        out.append("def atPattern%d : Re := %s" % (i, t))
        ats.append("(%s, atPattern%d, %s)" % (lean_str(a["command"]), i, lean_str(a["action"])))
    out.append("def defaultAtActions : List (String × Re × String) := [%s]" % ", ".join(ats))
    out.append("end ERP.Gen")
    return "\n".join(out) + "\n"


def _src(mod):
    return open(os.path.join(REPO, "octoprint_excluderegion", mod), newline="").read()


def events_in_on_event():
    """From the AST of on_event: {branch index: [Events.X names]}."""
    tree = ast.parse(_src("__init__.py"))
    res = []
    for node in ast.walk(tree):
        if isinstance(node, ast.FunctionDef) and node.name == "on_event":
            stmt = [s for s in node.body if isinstance(s, ast.If)][0]
            while True:
                names = [n.attr for n in ast.walk(stmt.test)
                         if isinstance(n, ast.Attribute) and isinstance(n.value, ast.Name)
                         and n.value.id == "Events"]
                res.append(names)
                if len(stmt.orelse) == 1 and isinstance(stmt.orelse[0], ast.If):
                    stmt = stmt.orelse[0]
                else:
                    if stmt.orelse:
                        res.append(["<else>"])
                    break
    return res


def reset_state_attrs():
    tree = ast.parse(_src("ExcludeRegionState.py"))
    out = {}
    for node in ast.walk(tree):
        if isinstance(node, ast.FunctionDef) and node.name in ("resetState", "__init__"):
            attrs = []
            for n in ast.walk(node):
                if isinstance(n, (ast.Assign, ast.AugAssign)):
                    targets = n.targets if isinstance(n, ast.Assign) else [n.target]
                    for t in targets:
                        if isinstance(t, ast.Attribute) and isinstance(t.value, ast.Name) \
                                and t.value.id == "self":
                            attrs.append(t.attr)
            out.setdefault(node.name, attrs)
    return out


def gen_consts():
    import importlib
    GH = importlib.import_module("octoprint_excluderegion.GcodeHandlers")
    ES = importlib.import_module("octoprint_excluderegion.ExcludeRegionState")
    EG = importlib.import_module("octoprint_excluderegion.ExcludedGcode")
    AA = importlib.import_module("octoprint_excluderegion.AtCommandAction")
    import octoprint_excluderegion as pkg
    from octoprint.events import Events
    import struct
    out = ["/-! GENERATED by harness/translate.py from /repo — do not edit -/", "namespace ERP.Gen"]

    def bits(x):
        return struct.unpack("<Q", struct.pack("<d", float(x)))[0]
    out.append("def inchToMmBits : UInt64 := %d" % bits(GH.INCH_TO_MM_FACTOR))
    num, den = float(GH.INCH_TO_MM_FACTOR).as_integer_ratio()
    from fractions import Fraction
    fr = Fraction(repr(float(GH.INCH_TO_MM_FACTOR)))
    out.append("def inchToMmNum : Nat := %d" % fr.numerator)
    out.append("def inchToMmDen : Nat := %d" % fr.denominator)
    out.append("def mmPerArcSegmentBits : UInt64 := %d" % bits(GH.MM_PER_ARC_SEGMENT))
    out.append("def twoPiBits : UInt64 := %d" % bits(GH.TWO_PI))
    out.append("def twoPiIsTwoPi : Bool := %s" % ("true" if GH.TWO_PI == 2 * math.pi else "false"))
    out.append("def ignoreIsNoneTuple : Bool := %s" % (
        "true" if ES.IGNORE_GCODE_CMD == (None,) else "false"))
    handlers = sorted(n[len("_handle_"):] for n in dir(GH.GcodeHandlers) if n.startswith("_handle_"))
    out.append("def handlerNames : List String := [%s]" % ", ".join(lean_str(h) for h in handlers))
    out.append("def modeNames : List String := [%s]" % ", ".join(
        lean_str(m) for m in (EG.EXCLUDE_ALL, EG.EXCLUDE_EXCEPT_FIRST, EG.EXCLUDE_EXCEPT_LAST,
                              EG.EXCLUDE_MERGE)))
    out.append("def actionNames : List String := [%s]" % ", ".join(
        lean_str(m) for m in (AA.ENABLE_EXCLUSION, AA.DISABLE_EXCLUSION)))
    out.append("def regionsChangedEvent : String := %s" % lean_str(pkg.EXCLUDED_REGIONS_CHANGED))
    branches = events_in_on_event()
    out.append("def onEventBranches : List (List String) := [%s]" % ", ".join(
        "[" + ", ".join(lean_str(n) for n in b) + "]" for b in branches))
    plugin = pkg.ExcludeRegionPlugin()
    api = plugin.get_api_commands()
    out.append("def apiCommands : List (String × List String) := [%s]" % ", ".join(
        "(%s, [%s])" % (lean_str(k), ", ".join(lean_str(x) for x in v)) for k, v in sorted(api.items())))
    d = plugin.get_settings_defaults()
    out.append("def defaultClearRegionsAfterPrintFinishes : Bool := %s" % str(
        bool(d["clearRegionsAfterPrintFinishes"])).lower())
    out.append("def defaultMayShrinkRegionsWhilePrinting : Bool := %s" % str(
        bool(d["mayShrinkRegionsWhilePrinting"])).lower())
    out.append("def defaultEnterScriptIsNone : Bool := %s" % str(
        d["enteringExcludedRegionGcode"] is None).lower())
    out.append("def defaultExitScriptIsNone : Bool := %s" % str(
        d["exitingExcludedRegionGcode"] is None).lower())
    out.append("def defaultExtended : List (String × String) := [%s]" % ", ".join(
        "(%s, %s)" % (lean_str(e["gcode"]), lean_str(e["mode"])) for e in d["extendedExcludeGcodes"]))
    ra = reset_state_attrs()
    out.append("def resetStateAttrs : List String := [%s]" % ", ".join(
        lean_str(a) for a in sorted(set(ra.get("resetState", [])))))
    out.append("def initAttrs : List String := [%s]" % ", ".join(
        lean_str(a) for a in sorted(set(ra.get("__init__", [])))))
    for name, pairs in initial_values().items():
        out.append("def %s : List (String × String) := [%s]" % (name, ", ".join(
            "(%s, %s)" % (lean_str(a), lean_str(v)) for (a, v) in pairs)))
    out.append("end ERP.Gen")
    return "\n".join(out) + "\n"


def initial_values():
    """Source text of the values a new print / a new object starts from."""
    def func(mod, cls, name):
        tree = ast.parse(_src(mod))
        for c in tree.body:
            if isinstance(c, ast.ClassDef) and c.name == cls:
                for f in c.body:
                    if isinstance(f, ast.FunctionDef) and f.name == name:
                        return f
        raise TranslateError("initial values: %s.%s not found" % (cls, name))

    def self_assigns(stmts):
        out = []
        for st in stmts:
            if isinstance(st, ast.Assign) and len(st.targets) == 1 and isinstance(st.targets[0], ast.Attribute) \
                    and isinstance(st.targets[0].value, ast.Name) and st.targets[0].value.id == "self":
                out.append((st.targets[0].attr, ast.unparse(st.value)))
        return out
    res = {}
    res["resetStateValues"] = self_assigns(func("ExcludeRegionState.py", "ExcludeRegionState", "resetState").body)
    f = func("Position.py", "Position", "__init__")
    first_if = [st for st in f.body if isinstance(st, ast.If)]
    if not first_if or ast.unparse(first_if[0].test) != "position is None":
        raise TranslateError("initial values: shape of Position.__init__")
    res["positionInitValues"] = self_assigns(first_if[0].body)
    f = func("AxisPosition.py", "AxisPosition", "__init__")
    names = [a.arg for a in f.args.args][1:]
    if len(names) != len(f.args.defaults):
        raise TranslateError("initial values: AxisPosition.__init__ defaults")
    res["axisDefaultValues"] = [(n, ast.unparse(d)) for n, d in zip(names, f.args.defaults)]
    f = func("RetractionState.py", "RetractionState", "__init__")
    res["retractionInitValues"] = [(a, v) for (a, v) in self_assigns(f.body) if v in ("True", "False", "None")]
    return res


# ---- geometry: the pure float expressions of RectangularRegion.py / CircularRegion.py are turned
# into Lean definitions over the model's arithmetic classes; ERP/Lemmas/GenGeometry.lean proves them
# equal to the hand-written model, so a change to any operator or operand there breaks a proof.
_CMP = {ast.Lt: "<", ast.LtE: "≤", ast.Gt: ">", ast.GtE: "≥"}
_BIN = {ast.Add: "+", ast.Sub: "-", ast.Mult: "*", ast.Div: "/"}


class _Geo(object):
    def __init__(self, cls, self_attrs):
        self.cls = cls
        self.self_attrs = self_attrs     # attribute names of `self`, in parameter order
        self.locals = set()

    def ex(self, n):
        if isinstance(n, ast.Name):
            if n.id in self.locals:
                return n.id
            raise TranslateError("geometry: free name %s in %s" % (n.id, self.cls))
        if isinstance(n, ast.Attribute) and isinstance(n.value, ast.Name):
            if n.value.id == "self" and n.attr in self.self_attrs:
                return n.attr
            if n.value.id == "otherRegion":
                return "o_" + n.attr
            raise TranslateError("geometry: attribute %s.%s" % (n.value.id, n.attr))
        if isinstance(n, ast.BinOp) and type(n.op) in _BIN:
            return "(%s %s %s)" % (self.ex(n.left), _BIN[type(n.op)], self.ex(n.right))
        if isinstance(n, ast.Compare) and len(n.ops) == 1 and type(n.ops[0]) in _CMP:
            return "decide (%s %s %s)" % (self.ex(n.left), _CMP[type(n.ops[0])], self.ex(n.comparators[0]))
        if isinstance(n, ast.BoolOp):
            op = " && " if isinstance(n.op, ast.And) else " || "
            return "(" + op.join(self.ex(v) for v in n.values) + ")"
        if isinstance(n, ast.Call) and isinstance(n.func, ast.Attribute) and isinstance(n.func.value, ast.Name):
            if n.func.value.id == "math" and n.func.attr == "hypot" and len(n.args) == 2 and not n.keywords:
                return "(MathOps.hypot %s %s)" % (self.ex(n.args[0]), self.ex(n.args[1]))
            if n.func.value.id == "self" and n.func.attr == "containsPoint" and len(n.args) == 2 \
                    and not n.keywords:
                return "(%sContainsPoint %s %s %s)" % (self.cls, " ".join(self.self_attrs),
                                                       self.ex(n.args[0]), self.ex(n.args[1]))
        raise TranslateError("geometry: cannot translate %s" % ast.dump(n)[:120])

    def body(self, stmts):
        """[Assign*; Return] -> nested lets"""
        stmts = [s for s in stmts if not (isinstance(s, ast.Expr) and isinstance(s.value, ast.Constant))
                 and not isinstance(s, ast.ImportFrom)]
        out = []
        for st in stmts[:-1]:
            if isinstance(st, ast.Assign) and len(st.targets) == 1 and isinstance(st.targets[0], ast.Name):
                out.append("let %s := %s" % (st.targets[0].id, self.ex(st.value)))
                self.locals.add(st.targets[0].id)
            else:
                raise TranslateError("geometry: statement %s" % ast.dump(st)[:120])
        if not isinstance(stmts[-1], ast.Return):
            raise TranslateError("geometry: no return in %s" % self.cls)
        out.append(self.ex(stmts[-1].value))
        return "\n  ".join(out)


def _is_instance_test(test, cls):
    return (isinstance(test, ast.Call) and isinstance(test.func, ast.Name) and test.func.id == "isinstance"
            and len(test.args) == 2 and isinstance(test.args[0], ast.Name) and test.args[0].id == "otherRegion"
            and isinstance(test.args[1], ast.Name) and test.args[1].id == cls)


def gen_geometry():
    attrs = {"rect": ["x1", "y1", "x2", "y2"], "circle": ["cx", "cy", "r"]}
    files = {"rect": ("RectangularRegion.py", "RectangularRegion"), "circle": ("CircularRegion.py", "CircularRegion")}
    other = {"RectangularRegion": "rect", "CircularRegion": "circle"}
    out = ["import ERP.Basic",
           "/-! Generated by harness/translate.py from RectangularRegion.py / CircularRegion.py — do not edit. -/",
           "namespace ERP.Gen", "section",
           "variable {α : Type} [Add α] [Sub α] [LT α] [LE α] [DecidableLT α] [DecidableLE α] [MathOps α]", ""]
    defs = {}
    for kind in ("rect", "circle"):
        fn, cname = files[kind]
        tree = ast.parse(_src(fn))
        cls = [n for n in tree.body if isinstance(n, ast.ClassDef) and n.name == cname]
        if len(cls) != 1:
            raise TranslateError("geometry: class %s not found" % cname)
        funcs = {n.name: n for n in cls[0].body if isinstance(n, ast.FunctionDef)}
        for need in ("containsPoint", "containsRegion", "__init__"):
            if need not in funcs:
                raise TranslateError("geometry: %s.%s not found" % (cname, need))
        # containsPoint(self, x, y)
        f = funcs["containsPoint"]
        if [a.arg for a in f.args.args] != ["self", "x", "y"]:
            raise TranslateError("geometry: signature of %s.containsPoint" % cname)
        g = _Geo(kind, attrs[kind]); g.locals = {"x", "y"}
        defs[kind + "ContainsPoint"] = "def %sContainsPoint (%s x y : α) : Bool :=\n  %s" % (
            kind, " ".join(attrs[kind]), g.body(f.body))
        # containsRegion(self, otherRegion): isinstance chain ending in raise
        f = funcs["containsRegion"]
        stmts = [s_ for s_ in f.body if isinstance(s_, ast.If)]
        if len(stmts) != 1:
            raise TranslateError("geometry: shape of %s.containsRegion" % cname)
        st = stmts[0]
        seen = []
        while True:
            hit = [c for c in other if _is_instance_test(st.test, c)]
            if len(hit) != 1:
                raise TranslateError("geometry: isinstance test in %s.containsRegion" % cname)
            ok = other[hit[0]]
            seen.append(ok)
            g = _Geo(kind, attrs[kind])
            defs["%sContains%s" % (kind, ok.capitalize())] = "def %sContains%s (%s %s : α) : Bool :=\n  %s" % (
                kind, ok.capitalize(), " ".join(attrs[kind]), " ".join("o_" + a for a in attrs[ok]), g.body(st.body))
            if len(st.orelse) == 1 and isinstance(st.orelse[0], ast.If):
                st = st.orelse[0]
            elif len(st.orelse) == 1 and isinstance(st.orelse[0], ast.Raise):
                break
            else:
                raise TranslateError("geometry: tail of %s.containsRegion" % cname)
        if sorted(seen) != ["circle", "rect"]:
            raise TranslateError("geometry: branches of %s.containsRegion: %s" % (cname, seen))
        if kind == "rect":
            # the constructor orders the corners: `if (b < a): a, b = b, a`
            f = funcs["__init__"]
            swaps = []
            for n in ast.walk(f):
                if isinstance(n, ast.If) and len(n.body) == 1 and not n.orelse and isinstance(n.body[0], ast.Assign) \
                        and isinstance(n.body[0].targets[0], ast.Tuple) and isinstance(n.body[0].value, ast.Tuple):
                    tg = [e.id for e in n.body[0].targets[0].elts]
                    vs = [e.id for e in n.body[0].value.elts]
                    swaps.append((n.lineno, n.test, tg, vs))
            swaps.sort(key=lambda t: t[0])
            g = _Geo(kind, []); g.locals = {"x1", "y1", "x2", "y2"}
            lines = []
            for (_, test, tg, vs) in swaps:
                if len(tg) != 2 or set(tg) != set(vs) or not set(tg) <= g.locals:
                    raise TranslateError("geometry: corner ordering statement")
                lines.append("let (%s, %s) := if %s then (%s, %s) else (%s, %s)" % (
                    tg[0], tg[1], g.ex(test).replace("decide ", "", 1), vs[0], vs[1], tg[0], tg[1]))
            # what is stored: self.<attr> = <name> after the ordering
            stored = {}
            for n in ast.walk(f):
                if isinstance(n, ast.Assign) and isinstance(n.targets[0], ast.Attribute) \
                        and isinstance(n.targets[0].value, ast.Name) and n.targets[0].value.id == "self" \
                        and isinstance(n.value, ast.Name) and n.value.id in g.locals:
                    stored[n.targets[0].attr] = n.value.id
            if sorted(stored) != ["x1", "x2", "y1", "y2"]:
                raise TranslateError("geometry: attributes stored by RectangularRegion.__init__: %s" % stored)
            lines.append("(%s, %s, %s, %s)" % (stored["x1"], stored["y1"], stored["x2"], stored["y2"]))
            defs["rectOrder"] = "def rectOrder (x1 y1 x2 y2 : α) : α × α × α × α :=\n  " + "\n  ".join(lines)
    for name in ("rectContainsPoint", "circleContainsPoint", "rectContainsRect", "rectContainsCircle",
                 "circleContainsRect", "circleContainsCircle", "rectOrder"):
        out.append(defs[name]); out.append("")
    out += ["end", "end ERP.Gen", ""]
    return "\n".join(out)


# ---- arithmetic methods: straight-line Python with `if` over floats and booleans (no loops) becomes
# nested Lean `let`s; ERP/Lemmas/GenArith.lean proves the model's total functions equal to them.
_CMPP = {ast.Lt: "<", ast.LtE: "≤", ast.Gt: ">", ast.GtE: "≥"}


class _Imp(object):
    """`env`: name -> 'num' | 'bool' for the variables in scope (`self.x` is the variable `self_x`);
    `externals`: source text of an expression -> Lean term standing for it (with its type);
    `calls`: method name -> function(list of translated args) for `self.<method>(...)`."""

    def __init__(self, env, externals=None, skip=(), calls=None):
        self.env = dict(env)
        self.externals = externals or {}
        self.skip = set(skip)
        self.calls = calls or {}

    def ty(self, n):
        src = ast.unparse(n)
        if src in self.externals:
            return self.externals[src][1]
        if isinstance(n, (ast.Compare, ast.BoolOp)) or (isinstance(n, ast.UnaryOp) and isinstance(n.op, ast.Not)):
            return "bool"
        if isinstance(n, ast.BinOp) and isinstance(n.op, ast.BitXor):
            return "bool"
        if isinstance(n, ast.Name):
            return self.env.get(n.id, "num")
        if isinstance(n, ast.Attribute) and isinstance(n.value, ast.Name):
            return self.env.get(n.value.id + "_" + n.attr, "num")
        if isinstance(n, ast.IfExp):
            return self.ty(n.body)
        if isinstance(n, ast.Constant) and isinstance(n.value, bool):
            return "bool"
        if self._max1_ceil(n) is not None:
            return "nat"
        return "num"

    @staticmethod
    def _max1_ceil(n):
        """`max(1, int(math.ceil(e)))` -> e"""
        if isinstance(n, ast.Call) and ast.unparse(n.func) == "max" and len(n.args) == 2 and not n.keywords \
                and ast.unparse(n.args[0]) == "1" and isinstance(n.args[1], ast.Call) \
                and ast.unparse(n.args[1].func) == "int" and len(n.args[1].args) == 1 \
                and isinstance(n.args[1].args[0], ast.Call) and ast.unparse(n.args[1].args[0].func) == "math.ceil" \
                and len(n.args[1].args[0].args) == 1:
            return n.args[1].args[0].args[0]
        return None

    def num(self, n):
        """n as a float operand (an integer count is converted)"""
        return "(MathOps.ofNat %s)" % self.ex(n) if self.ty(n) == "nat" else self.ex(n)

    def truth(self, n):
        return self.ex(n) if self.ty(n) == "bool" else "!(%s == 0)" % self.ex(n)    # truthiness of a float

    def ex(self, n):
        src = ast.unparse(n)
        if src in self.externals:
            return self.externals[src][0]
        if isinstance(n, ast.Constant):
            if isinstance(n.value, bool):
                return "true" if n.value else "false"
            if isinstance(n.value, int) and n.value >= 0:
                return str(n.value)
            raise TranslateError("arith: constant %r" % (n.value,))
        if isinstance(n, ast.Name):
            if n.id in self.env:
                return n.id
            raise TranslateError("arith: free name %s" % n.id)
        if isinstance(n, ast.Attribute) and isinstance(n.value, ast.Name) \
                and n.value.id + "_" + n.attr in self.env:
            return n.value.id + "_" + n.attr
        if isinstance(n, ast.UnaryOp) and isinstance(n.op, ast.USub):
            return "(-%s)" % self.ex(n.operand)
        if isinstance(n, ast.UnaryOp) and isinstance(n.op, ast.Not):
            return "!(%s)" % self.truth(n.operand)
        if isinstance(n, ast.BinOp) and type(n.op) in _BIN:
            return "(%s %s %s)" % (self.num(n.left), _BIN[type(n.op)], self.num(n.right))
        if self._max1_ceil(n) is not None:
            return "(max 1 (MathOps.ceilNat %s))" % self.ex(self._max1_ceil(n))
        if isinstance(n, ast.BinOp) and isinstance(n.op, ast.BitXor) and self.ty(n.left) == "bool" \
                and self.ty(n.right) == "bool":
            return "(xor %s %s)" % (self.ex(n.left), self.ex(n.right))
        if isinstance(n, ast.Compare) and len(n.ops) == 1:
            a, b = self.ex(n.left), self.ex(n.comparators[0])
            if type(n.ops[0]) in _CMPP:
                return "(decide (%s %s %s))" % (a, _CMPP[type(n.ops[0])], b)
            if isinstance(n.ops[0], ast.Eq):
                return "(%s == %s)" % (a, b)
            if isinstance(n.ops[0], ast.NotEq):
                return "!(%s == %s)" % (a, b)
        if isinstance(n, ast.BoolOp):
            op = " && " if isinstance(n.op, ast.And) else " || "
            return "(" + op.join(self.truth(v) for v in n.values) + ")"
        if isinstance(n, ast.IfExp):
            return "(if %s then %s else %s)" % (self.cond(n.test), self.ex(n.body), self.ex(n.orelse))
        if isinstance(n, ast.Call) and not n.keywords:
            f = ast.unparse(n.func)
            args = [self.ex(a) for a in n.args]
            if f == "math.hypot" and len(args) == 2:
                return "(MathOps.hypot %s %s)" % tuple(args)
            if f == "math.sqrt" and len(args) == 1:
                return "(MathOps.sqrt %s)" % args[0]
            if f == "math.atan2" and len(args) == 2:
                return "(MathOps.atan2 %s %s)" % tuple(args)
            if f in ("math.cos", "math.sin") and len(args) == 1:
                return "(MathOps.%s %s)" % (f[5:], args[0])
            if f == "abs" and len(args) == 1:
                return "(pyAbs %s)" % args[0]
            if f == "float" and len(args) == 1:
                return args[0]
            if f.startswith("self.") and f[5:] in self.calls:
                return self.calls[f[5:]](self, args)
            if f in self.calls:
                return self.calls[f](self, args)
        raise TranslateError("arith: cannot translate %s" % src[:100])

    def cond(self, n):
        """test of an `if`: a bare order comparison stays a proposition (as in the model)"""
        if ast.unparse(n) not in self.externals and isinstance(n, ast.Compare) and len(n.ops) == 1 \
                and type(n.ops[0]) in _CMPP:
            return "%s %s %s" % (self.ex(n.left), _CMPP[type(n.ops[0])], self.ex(n.comparators[0]))
        return self.truth(n)

    def target(self, t):
        if isinstance(t, ast.Name):
            return t.id
        if isinstance(t, ast.Attribute) and isinstance(t.value, ast.Name) \
                and (t.value.id == "self" or t.value.id + "_" + t.attr in self.env):
            return t.value.id + "_" + t.attr
        raise TranslateError("arith: assignment target %s" % ast.unparse(t))

    def assigned(self, stmts):
        out = []
        for st in stmts:
            names = []
            if isinstance(st, ast.Assign):
                names = [self.target(t) for t in st.targets]
            elif isinstance(st, ast.AugAssign):
                names = [self.target(st.target)]
            elif isinstance(st, ast.If):
                names = self.assigned(st.body) + self.assigned(st.orelse)
            for v in names:
                if v not in out:
                    out.append(v)
        return out

    def block(self, stmts, result, ind):
        """Lean term for `stmts` followed by `result` (an ast node evaluated afterwards, or text)."""
        pad = "  " * ind
        def is_log(st):          # logging has no effect on the values
            return isinstance(st, ast.Expr) and isinstance(st.value, ast.Call) and \
                ast.unparse(st.value.func).split(".")[0:-1] in (["logger"], ["self", "_logger"])
        stmts = [st for st in stmts if not (isinstance(st, ast.Expr) and isinstance(st.value, ast.Constant))
                 and ast.unparse(st) not in self.skip and not is_log(st)]
        saved = dict(self.env)
        lines = []
        for k, st in enumerate(stmts):
            if isinstance(st, (ast.Assign, ast.AugAssign)):
                if isinstance(st, ast.Assign):
                    if len(st.targets) != 1:
                        raise TranslateError("arith: multiple targets")
                    name, val, t = self.target(st.targets[0]), self.ex(st.value), self.ty(st.value)
                else:
                    if type(st.op) not in _BIN:
                        raise TranslateError("arith: augmented assignment %s" % ast.unparse(st))
                    name = self.target(st.target)
                    if name not in self.env:
                        raise TranslateError("arith: %s modified before assignment" % name)
                    val, t = "(%s %s %s)" % (name, _BIN[type(st.op)], self.ex(st.value)), "num"
                lines.append("%slet %s : %s := %s" % (pad, name, {"num": "α", "bool": "Bool", "nat": "Nat"}[t], val))
                self.env[name] = t
            elif isinstance(st, ast.If) and st.body and isinstance(st.body[-1], ast.Return) and not st.orelse:
                # early return: `if c: ...; return e` followed by the rest
                env0 = dict(self.env)
                then = self.block(st.body[:-1], st.body[-1].value, ind + 2)
                self.env = env0
                rest = self.block(stmts[k + 1:], result, ind + 2)
                lines.append("%sif %s then\n%s\n%selse\n%s" % (pad, self.cond(st.test), then, pad, rest))
                self.env = saved
                return "\n".join(lines)
            elif isinstance(st, ast.If):
                live = [v for v in self.assigned([st]) if v in self.env]     # defined before: survive the `if`
                if not live:
                    raise TranslateError("arith: `if` without effect")
                tup = "(%s)" % ", ".join(live) if len(live) > 1 else live[0]
                env0 = dict(self.env)
                then = self.block(st.body, tup, ind + 2)
                self.env = dict(env0)
                els = self.block(st.orelse, tup, ind + 2)
                self.env = dict(env0)
                lines.append("%slet %s := if %s then\n%s\n%s  else\n%s" % (pad, tup, self.cond(st.test), then, pad, els))
            else:
                raise TranslateError("arith: statement %s" % ast.unparse(st)[:100])
        if isinstance(result, ast.Tuple):
            res = "(%s)" % ", ".join(self.ex(e) for e in result.elts)
        elif isinstance(result, ast.AST):
            res = self.ex(result)
        else:
            res = result
        lines.append("%s%s" % (pad, res))
        self.env = saved
        return "\n".join(lines)


def _method(tree, cls, name, params):
    for c in tree.body:
        if isinstance(c, ast.ClassDef) and c.name == cls:
            for f in c.body:
                if isinstance(f, ast.FunctionDef) and f.name == name:
                    if [a.arg for a in f.args.args] != ["self"] + params:
                        raise TranslateError("arith: signature of %s.%s changed" % (cls, name))
                    return f
    raise TranslateError("arith: %s.%s not found" % (cls, name))


def gen_arith():
    out = ["import ERP.Model.Handlers",
           "/-! Generated by harness/translate.py from AxisPosition.py / GcodeHandlers.py — do not edit. -/",
           "namespace ERP.Gen", "section",
           "variable {α : Type} [Add α] [Sub α] [Mul α] [Div α] [Neg α] [LT α] [LE α] [BEq α]",
           "  [OfNat α 0] [OfNat α 1] [OfNat α 2] [DecidableLT α] [DecidableLE α] [MathOps α]", ""]
    axis = ast.parse(_src("AxisPosition.py"))
    attrs = ["current", "homeOffset", "offset", "unitMultiplier"]
    selfenv = dict(("self_" + a, "num") for a in attrs)
    selfenv["self_absoluteMode"] = "bool"
    selfparams = "(self_current self_homeOffset self_offset self_unitMultiplier : α) (self_absoluteMode : Bool)"
    optional = {"value is None": ("valueIsNone", "bool"), "absoluteMode is None": ("absIsNone", "bool")}

    def conv(fname):
        f = _method(axis, "AxisPosition", fname, ["value", "absoluteMode"])
        if [ast.unparse(d) for d in f.args.defaults] != ["None", "None"]:
            raise TranslateError("arith: defaults of AxisPosition.%s changed" % fname)
        if not isinstance(f.body[-1], ast.Return):
            raise TranslateError("arith: AxisPosition.%s does not end in return" % fname)
        imp = _Imp(dict(selfenv, value="num", absoluteMode="bool"), optional)
        return ("/-- `AxisPosition.%s(value, absoluteMode)`; `valueIsNone` / `absIsNone` say which arguments are\n"
                "`None` (then the corresponding parameter is not read) -/\n"
                "def %s %s\n    (value : α) (valueIsNone : Bool) (absoluteMode : Bool) (absIsNone : Bool) : α :=\n%s"
                % (fname, fname, selfparams, imp.block(f.body[:-1], f.body[-1].value, 1)))
    out += [conv("logicalToNative"), "", conv("nativeToLogical"), ""]

    def l2n_call(imp, args):
        if len(args) != 1:
            raise TranslateError("arith: call of logicalToNative")
        return "(logicalToNative self_current self_homeOffset self_offset self_unitMultiplier self_absoluteMode %s false true true)" % args[0]
    for fname, arg, res in (("setLogicalOffsetPosition", "offset", ["self_offset"]),
                            ("setHomeOffset", "homeOffset", ["self_homeOffset", "self_current"])):
        f = _method(axis, "AxisPosition", fname, [arg])
        imp = _Imp(dict(selfenv, **{arg: "num"}), calls={"logicalToNative": l2n_call})
        got = imp.assigned(f.body)
        if sorted(v for v in got if v.startswith("self_")) != sorted(res):
            raise TranslateError("arith: attributes assigned by AxisPosition.%s: %s" % (fname, got))
        tup = "(%s)" % ", ".join(res) if len(res) > 1 else res[0]
        out += ["/-- `AxisPosition.%s(%s)`: the new value of %s -/" % (fname, arg, ", ".join(r[5:] for r in res)),
                "def %s %s (%s : α) : %s :=\n%s" % (fname, selfparams, arg, " × ".join("α" for _ in res),
                                                   imp.block(f.body, tup, 1)), ""]
    # RetractionState._addCommands(direction, position), non-firmware branch: the numbers put into
    # the two synthesised commands and the extruder position left behind
    rs0 = ast.parse(_src("RetractionState.py"))
    f = _method(rs0, "RetractionState", "_addCommands", ["direction", "position"])
    top = [st for st in f.body if isinstance(st, ast.If)]
    if len(top) != 1 or ast.unparse(top[0].test) != "self.firmwareRetract" or not top[0].orelse:
        raise TranslateError("arith: shape of RetractionState._addCommands")
    stmts, templates, outs = [], [], []
    for st in top[0].orelse:
        src = ast.unparse(st)
        if src == "eAxis = position.E_AXIS":
            continue
        if isinstance(st, ast.Expr) and src.startswith("returnCommands.append("):
            call = st.value.args[0]
            if not (isinstance(call, ast.Call) and isinstance(call.func, ast.Attribute) and call.func.attr == "format"
                    and isinstance(call.func.value, ast.Constant) and isinstance(call.func.value.value, str)
                    and not call.args):
                raise TranslateError("arith: _addCommands appends %s" % src[:80])
            k = len(templates)
            templates.append(call.func.value.value)
            for kw in call.keywords:
                v = kw.value
                if not (isinstance(v, ast.Call) and ast.unparse(v.func) == "formatNumber" and len(v.args) == 1):
                    raise TranslateError("arith: _addCommands formats %s without formatNumber" % kw.arg)
                name = "out%d_%s" % (k, kw.arg)
                outs.append(name)
                stmts.append(ast.parse("%s = %s" % (name, ast.unparse(v.args[0]))).body[0])
            continue
        stmts.append(st)
    env = dict(("eAxis_" + a, "num") for a in attrs)
    env.update({"eAxis_absoluteMode": "bool", "self_extrusionAmount": "num", "self_feedRate": "num", "direction": "num"})

    def e_n2l(imp, args):
        if args:
            raise TranslateError("arith: call of nativeToLogical in _addCommands")
        return ("(nativeToLogical eAxis_current eAxis_homeOffset eAxis_offset eAxis_unitMultiplier eAxis_absoluteMode"
                " eAxis_current true true true)")
    imp = _Imp(env, calls={"eAxis.nativeToLogical": e_n2l})
    if sorted(outs) != ["out0_e", "out1_e", "out1_f"]:
        raise TranslateError("arith: numbers formatted by _addCommands: %s" % outs)
    out += ["/-- the command templates of `RetractionState._addCommands` (non-firmware branch) -/",
            "def addCommandsTemplates : List String := [%s]" % ", ".join(lean_str(t) for t in templates), "",
            "/-- `RetractionState._addCommands(direction, position)`, non-firmware branch: the numbers formatted into",
            "the two commands (`%s`) and the extruder position left behind -/" % ", ".join(outs),
            "def addCommandsValues (self_extrusionAmount self_feedRate direction : α)\n"
            "    (eAxis_current eAxis_homeOffset eAxis_offset eAxis_unitMultiplier : α) (eAxis_absoluteMode : Bool) :\n"
            "    α × α × α × α :=\n" + imp.block(stmts, "(%s, eAxis_current)" % ", ".join(outs), 1), ""]
    # ExcludeRegionState.exitExcludedRegion: the commands appended after the pending ones —
    # templates, the order of their numbers, the conditions on the Z move
    import string as _string
    st_tree = ast.parse(_src("ExcludeRegionState.py"))
    f = _method(st_tree, "ExcludeRegionState", "exitExcludedRegion", ["cmd"])
    body = [x for x in f.body if not (isinstance(x, ast.Expr) and isinstance(x.value, ast.Constant))]
    start = [k for k, x in enumerate(body) if ast.unparse(x) == "returnCommands = self._processPendingCommands()"]
    if len(start) != 1 or ast.unparse(body[-1]) != "return returnCommands" \
            or ast.unparse(body[start[0] - 1]) != "self.excluding = False":
        raise TranslateError("arith: shape of exitExcludedRegion")
    ext = {"self.position.E_AXIS.nativeToLogical()": ("eLogical", "num"),
           "self._exitCoordinate(position.Z_AXIS, lastPosition.Z_AXIS)": ("zExit", "num"),
           "self._exitCoordinate(position.X_AXIS, lastPosition.X_AXIS)": ("xExit", "num"),
           "self._exitCoordinate(position.Y_AXIS, lastPosition.Y_AXIS)": ("yExit", "num"),
           "position.Z_AXIS.current": ("newZcur", "num"), "lastPosition.Z_AXIS.current": ("oldZcur", "num")}
    imp = _Imp({"self_feedRate": "num", "self_feedRateUnitMultiplier": "num"}, ext)

    def command(call):
        """'TEMPLATE'.format(k=formatNumber(e), ...) -> Lean pair (template, numbers in template order)"""
        if not (isinstance(call, ast.Call) and isinstance(call.func, ast.Attribute) and call.func.attr == "format"
                and isinstance(call.func.value, ast.Constant) and isinstance(call.func.value.value, str)
                and not call.args):
            raise TranslateError("arith: exitExcludedRegion builds %s" % ast.unparse(call)[:80])
        tpl = call.func.value.value
        kws = {}
        for kw in call.keywords:
            if not (isinstance(kw.value, ast.Call) and ast.unparse(kw.value.func) == "formatNumber"
                    and len(kw.value.args) == 1):
                raise TranslateError("arith: exitExcludedRegion formats %s without formatNumber" % kw.arg)
            kws[kw.arg] = imp.ex(kw.value.args[0])
        order = [fld for (_t, fld, _f, _c) in _string.Formatter().parse(tpl) if fld]
        if sorted(order) != sorted(kws):
            raise TranslateError("arith: placeholders of %r" % tpl)
        return "(%s, [%s])" % (lean_str(tpl), ", ".join(kws[k] for k in order))
    lets, parts, cmdvars = [], [], set()
    for x in body[start[0] + 1:-1]:
        src = ast.unparse(x)
        if src in ("position = self.position", "lastPosition = self.lastPosition") or src.startswith("self._logger."):
            continue
        if isinstance(x, ast.Assign) and len(x.targets) == 1 and isinstance(x.targets[0], ast.Name):
            name = x.targets[0].id
            if isinstance(x.value, ast.Call) and isinstance(x.value.func, ast.Attribute) and x.value.func.attr == "format":
                lets.append("let %s : String × List α := %s" % (name, command(x.value)))
                cmdvars.add(name)
            else:
                lets.append("let %s : α := %s" % (name, imp.ex(x.value)))
                imp.env[name] = "num"
            continue

        def appended(y):
            if not (isinstance(y, ast.Expr) and isinstance(y.value, ast.Call)
                    and ast.unparse(y.value.func) == "returnCommands.append" and len(y.value.args) == 1):
                raise TranslateError("arith: statement of exitExcludedRegion: %s" % ast.unparse(y)[:80])
            a = y.value.args[0]
            if isinstance(a, ast.Name) and a.id in cmdvars:
                return a.id
            return command(a)
        if isinstance(x, ast.If) and not x.orelse and len(x.body) == 1:
            parts.append("(if %s then [%s] else [])" % (imp.cond(x.test), appended(x.body[0])))
        else:
            parts.append("[%s]" % appended(x))
    out += ["/-- `ExcludeRegionState.exitExcludedRegion`: what is appended after the pending commands — command",
            "templates with their numbers in template order.  `eLogical`, `zExit`, `xExit`, `yExit`, `newZcur`, `oldZcur`",
            "stand for `self.position.E_AXIS.nativeToLogical()`, `self._exitCoordinate(position.<A>_AXIS,",
            "lastPosition.<A>_AXIS)` and the native Z of `position` / `lastPosition` (exact source texts). -/",
            "def exitCommands (eLogical zExit xExit yExit newZcur oldZcur self_feedRate self_feedRateUnitMultiplier : α) :\n"
            "    List (String × List α) :=\n  " + "\n  ".join(lets) + "\n  " + " ++\n    ".join(parts), ""]
    # RetractionState.combine(other, logger): the new extrusionAmount
    rs = ast.parse(_src("RetractionState.py"))
    f = _method(rs, "RetractionState", "combine", ["other", "logger"])
    if ast.unparse(f.body[-1]) != "return self":
        raise TranslateError("arith: RetractionState.combine does not end in `return self`")
    imp = _Imp({"self_allowCombine": "bool", "self_firmwareRetract": "bool", "other_firmwareRetract": "bool",
                "self_extrusionAmount": "num", "other_extrusionAmount": "num"})
    got = imp.assigned(f.body)
    if got != ["self_extrusionAmount"]:
        raise TranslateError("arith: attributes assigned by RetractionState.combine: %s" % got)
    out += ["/-- `RetractionState.combine(other)`: the new extrusionAmount -/",
            "def combine (self_allowCombine self_firmwareRetract other_firmwareRetract : Bool)\n"
            "    (self_extrusionAmount other_extrusionAmount : α) : α :=\n"
            + imp.block(f.body[:-1], "self_extrusionAmount", 1), ""]
    # ExcludeRegionState._exitCoordinate(axis, lastAxis) (a static method)
    st = ast.parse(_src("ExcludeRegionState.py"))
    f = None
    for c in st.body:
        if isinstance(c, ast.ClassDef) and c.name == "ExcludeRegionState":
            for g in c.body:
                if isinstance(g, ast.FunctionDef) and g.name == "_exitCoordinate":
                    f = g
    if f is None or [a.arg for a in f.args.args] != ["axis", "lastAxis"] or not isinstance(f.body[-1], ast.Return):
        raise TranslateError("arith: ExcludeRegionState._exitCoordinate not found / changed")
    env = dict(("axis_" + a, "num") for a in attrs)
    env["axis_absoluteMode"] = "bool"
    env["lastAxis_current"] = "num"

    def n2l_call(imp, args):
        if args:
            raise TranslateError("arith: call of nativeToLogical in _exitCoordinate")
        return ("(nativeToLogical axis_current axis_homeOffset axis_offset axis_unitMultiplier axis_absoluteMode"
                " axis_current true true true)")
    imp = _Imp(env, calls={"axis.nativeToLogical": n2l_call})
    out += ["/-- `ExcludeRegionState._exitCoordinate(axis, lastAxis)` -/",
            "def exitCoordinate (axis_current axis_homeOffset axis_offset axis_unitMultiplier : α) (axis_absoluteMode : Bool)\n"
            "    (lastAxis_current : α) : α :=\n" + imp.block(f.body[:-1], f.body[-1].value, 1), ""]
    gh = ast.parse(_src("GcodeHandlers.py"))
    f = _method(gh, "GcodeHandlers", "computeArcCenterOffsets", ["endX", "endY", "radius", "clockwise"])
    imp = _Imp({"endX": "num", "endY": "num", "radius": "num", "clockwise": "bool"},
               {"position.X_AXIS.nativeToLogical()": ("curX", "num"), "position.Y_AXIS.nativeToLogical()": ("curY", "num")},
               skip=["position = self.state.position"])
    if not isinstance(f.body[-1], ast.Return):
        raise TranslateError("arith: computeArcCenterOffsets does not end in return")
    out += ["/-- `GcodeHandlers.computeArcCenterOffsets`; `curX`, `curY` = the current logical position -/",
            "def arcCenterOffsets (curX curY endX endY radius : α) (clockwise : Bool) : α × α :=\n"
            + imp.block(f.body[:-1], f.body[-1].value, 1), ""]
    # planArc: everything before the loop, and one iteration of the loop
    f = _method(gh, "GcodeHandlers", "planArc", ["endX", "endY", "i", "j", "clockwise"])
    body = [st for st in f.body if not (isinstance(st, ast.Expr) and isinstance(st.value, ast.Constant))]
    cut = [k for k, st in enumerate(body) if ast.unparse(st) == "rval = []"]
    if len(cut) != 1 or not isinstance(body[cut[0] + 1], ast.For):
        raise TranslateError("arith: shape of planArc (accumulator / loop)")
    loop = body[cut[0] + 1]
    if ast.unparse(loop.iter) != "range(1, numSegments)" or loop.orelse:
        raise TranslateError("arith: planArc loop range: %s" % ast.unparse(loop.iter))
    tail = [ast.unparse(st) for st in body[cut[0] + 2:] if not ast.unparse(st).startswith("self._logger")]
    if tail != ["rval += [endX, endY]", "return rval"]:
        raise TranslateError("arith: planArc after the loop: %s" % tail)
    consts = {"TWO_PI": ("MathOps.twoPi", "num"), "MM_PER_ARC_SEGMENT": ("(1 : α)", "num"),
              "self.state.position.X_AXIS.nativeToLogical()": ("curX", "num"),
              "self.state.position.Y_AXIS.nativeToLogical()": ("curY", "num")}
    imp = _Imp({"endX": "num", "endY": "num", "i": "num", "j": "num", "clockwise": "bool"}, consts)
    setup = imp.block(body[:cut[0]], "(centerX, centerY, radius, angularTravel, numSegments, angle, angularIncrement)", 1)
    out += ["/-- `GcodeHandlers.planArc` up to its loop: centre, radius, signed sweep, number of segments, start",
            "angle, angular increment (`TWO_PI` = `MathOps.twoPi`, `MM_PER_ARC_SEGMENT` = 1: `ERP.mmPerArcSegment_is_one`) -/",
            "def planArcSetup (curX curY endX endY i j : α) (clockwise : Bool) : α × α × α × α × Nat × α × α :=\n" + setup, ""]
    if len(loop.body) != 2 or not isinstance(loop.body[1], ast.AugAssign) or ast.unparse(loop.body[1].target) != "rval" \
            or not isinstance(loop.body[1].value, ast.List) or len(loop.body[1].value.elts) != 2:
        raise TranslateError("arith: planArc loop body")
    imp = _Imp({"centerX": "num", "centerY": "num", "radius": "num", "angularIncrement": "num", "angle": "num"})
    pt = loop.body[1].value.elts
    step = imp.block(loop.body[:1], ast.Tuple(elts=[ast.Name(id="angle"), pt[0], pt[1]]), 1)
    out += ["/-- one iteration of the loop of `planArc`: the new angle and the point appended -/",
            "def planArcStep (centerX centerY radius angularIncrement angle : α) : α × α × α :=\n" + step, ""]
    out += ["end", "end ERP.Gen", ""]
    return "\n".join(out)


def write_if_changed(path, text):
    old = None
    if os.path.exists(path):
        old = open(path).read()
    if old != text:
        with open(path, "w") as f:
            f.write(text)
        return True
    return False


def main(outdir):
    import warnings
    warnings.simplefilter("ignore")
    changed = []
    for name, fn in (("Regexes.lean", gen_regexes), ("Consts.lean", gen_consts), ("Geometry.lean", gen_geometry),
                     ("Arith.lean", gen_arith)):
        if write_if_changed(os.path.join(outdir, name), fn()):
            changed.append(name)
    print("translate: ok; changed: %s" % (", ".join(changed) or "nothing"))


if __name__ == "__main__":
    try:
        main(sys.argv[1] if len(sys.argv) > 1 else "/verif/lean/ERP/Gen")
    except TranslateError as exc:
        print("translate: FAILED: %s" % exc)
        sys.exit(3)
