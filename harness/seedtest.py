"""Validate seeded changes and run the checks against them.
usage: seedtest.py import <pid> <k>      copy /tmp/wt/<pid>/{patchK.diff,demoK.py,metaK.json} -> seeded/<pid>-<k>/ after validating
       seedtest.py run <seed-id> [props] apply the patch to /repo, run ./check for the listed properties, undo
"""
import json, os, shutil, subprocess, sys
ROOT = "/verif"
def sh(cmd, cwd=None, env=None, timeout=3600):
    p = subprocess.run(cmd, cwd=cwd, env=env, shell=isinstance(cmd, str), stdout=subprocess.PIPE, stderr=subprocess.STDOUT, timeout=timeout)
    return p.returncode, p.stdout.decode("utf-8", "replace")

def validate(pid, k):
    wt = "/tmp/wt/%s" % pid
    patch = "%s/patch%s.diff" % (wt, k); demo = "demo%s.py" % k
    env = dict(os.environ, ERP_SRC=wt, PYTHONDONTWRITEBYTECODE="1")
    sh("git checkout -- .", cwd=wt)
    rc0, out0 = sh(["/venv/bin/python", demo], cwd=wt, env=env)
    rc, out = sh(["git", "apply", patch], cwd=wt)
    if rc != 0: return {"ok": False, "why": "patch does not apply: " + out[-300:]}
    rc1, out1 = sh(["/venv/bin/python", demo], cwd=wt, env=env)
    rcb, outb = sh(["/venv/bin/python", "/verif/harness/baseline.py", wt])
    sh("git checkout -- .", cwd=wt)
    ok = rc0 == 0 and rc1 != 0 and rcb == 0
    return {"ok": ok, "demo_clean_rc": rc0, "demo_patched_rc": rc1, "baseline": outb.strip().split("\n")[-1], "demo_patched_out": out1[-600:]}

def do_import(pid, k):
    res = validate(pid, k)
    sid = "%s-%s" % (pid, k)
    d = os.path.join(ROOT, "seeded", sid)
    print(sid, res["ok"], res.get("baseline"), "clean rc", res.get("demo_clean_rc"), "patched rc", res.get("demo_patched_rc"))
    if not res["ok"]:
        print(json.dumps(res, indent=1)[:1500]); return
    os.makedirs(d, exist_ok=True)
    wt = "/tmp/wt/%s" % pid
    shutil.copy("%s/patch%s.diff" % (wt, k), d + "/patch.diff")
    shutil.copy("%s/demo%s.py" % (wt, k), d + "/demo.py")
    meta = json.load(open("%s/meta%s.json" % (wt, k)))
    meta["validated"] = {"what_i_ran": "git apply patch.diff in a scratch worktree; baseline suite (416 stable tests pass); demo.py exits 1 with the patch and 0 without", **{k2: v for k2, v in res.items() if k2 != "demo_patched_out"}}
    json.dump(meta, open(d + "/meta.json", "w"), indent=1)

def do_run(sid, props):
    d = os.path.join(ROOT, "seeded", sid)
    meta = json.load(open(d + "/meta.json"))
    props = props or [meta["property"]]
    rc, out = sh(["git", "-C", "/repo", "apply", d + "/patch.diff"])
    if rc != 0:
        print("cannot apply", out); return
    results = {}
    try:
        for p in props:
            rc, out = sh(["./check", p], cwd=ROOT, env=dict(os.environ, VERIF_SEED=os.environ.get("VERIF_SEED", "1"),
                                                                  VERIF_EVIDENCE_DIR="/verif/.work/evidence-seeded"))
            lines = [l for l in out.split("\n") if l.startswith("VIOLATION") or l.startswith("  ") or "PASS" in l or "FAIL" in l]
            results[p] = {"exit": rc, "lines": lines[:8]}
            print(sid, p, "exit", rc); [print("    ", l[:260]) for l in lines[:6]]
    finally:
        sh(["git", "-C", "/repo", "checkout", "--", "."])
    meta.setdefault("check_results", {}).update(results)
    json.dump(meta, open(d + "/meta.json", "w"), indent=1)

if __name__ == "__main__":
    if sys.argv[1] == "import": do_import(sys.argv[2], sys.argv[3])
    else: do_run(sys.argv[2], sys.argv[3:])
