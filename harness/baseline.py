"""Run the repo's pinned baseline suite and compare with /root/.vp/BASELINE.json stable_pass."""
import json, subprocess, sys, tempfile, os
import xml.etree.ElementTree as ET
def main(repo="/repo"):
    base = json.load(open("/root/.vp/BASELINE.json"))
    fd, path = tempfile.mkstemp(suffix=".xml", dir="/verif/.work"); os.close(fd)
    try:
        subprocess.run(["/venv/bin/python", "-m", "pytest", "-q", "-p", "no:cacheprovider", "--timeout=900",
                        "--continue-on-collection-errors", "--junitxml=" + path], cwd=repo,
                       stdout=subprocess.DEVNULL, stderr=subprocess.DEVNULL,
                       env=dict(os.environ, PYTHONDONTWRITEBYTECODE="1"), timeout=1500)
    except subprocess.TimeoutExpired:
        print("baseline: the test suite did not finish within 1500 s")
        os.unlink(path)
        return 1
    passed = set()
    for tc in ET.parse(path).getroot().iter("testcase"):
        if not any(ch.tag in ("failure", "error", "skipped") for ch in tc):
            passed.add("%s::%s" % (tc.get("classname"), tc.get("name")))
    os.unlink(path)
    want = set(base["stable_pass"])
    missing = sorted(want - passed)
    print("baseline: %d expected, %d passing, %d missing" % (len(want), len(want & passed), len(missing)))
    for m in missing[:20]: print("  MISSING", m)
    return 1 if missing else 0
if __name__ == "__main__":
    sys.exit(main(*sys.argv[1:]))
