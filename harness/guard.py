"""Watchdog for calls into the implementation: a change that makes the plugin loop for ever must
end in a verdict, not in a check that never returns.

`watchdog(seconds)` arms a SIGALRM timer around a block (main thread only; nested use keeps the
outer deadline); when it fires, `ImplTimeout` is raised inside the running code.  `violation_on_hang`
turns that into an ordinary oracle violation, so the failing input becomes the replay like any
other violation."""
import contextlib
import functools
import os
import signal
import threading
import time

HANG_SECONDS = float(os.environ.get("VERIF_HANG_SECONDS", "60"))


class ImplTimeout(Exception):
    """The implementation did not return within the allowed time."""


_deadline = [None]


@contextlib.contextmanager
def watchdog(seconds=None):
    seconds = HANG_SECONDS if seconds is None else seconds
    if threading.current_thread() is not threading.main_thread() or _deadline[0] is not None:
        yield                       # nested (outer watchdog is armed) or not the main thread
        return

    def handler(_signum, _frame):
        raise ImplTimeout("implementation did not terminate within %g s" % seconds)
    old = signal.signal(signal.SIGALRM, handler)
    _deadline[0] = time.time() + seconds
    signal.setitimer(signal.ITIMER_REAL, seconds)
    try:
        yield
    finally:
        signal.setitimer(signal.ITIMER_REAL, 0)
        signal.signal(signal.SIGALRM, old)
        _deadline[0] = None


def violation_on_hang(make, before=None):
    """Decorator for oracle functions: `make(message)` builds the function's violation value;
    `before()` (environment set-up such as importing OctoPrint) runs outside the time limit."""
    def deco(fn):
        @functools.wraps(fn)
        def wrapper(*a, **kw):
            if before is not None:
                before()
            try:
                with watchdog():
                    return fn(*a, **kw)
            except ImplTimeout as exc:
                return make(str(exc))
        return wrapper
    return deco
