"""Runs one property check: ties (translator, Lean build, audit, correspondence suites), replays,
oracle pass, failing-input search, verdict, evidence."""
import collections
import json
import math
import os
import random
import sys
import time
import zlib

from . import checker, registry

ROOT = checker.ROOT


# ----------------------------------------------------------------------------- oracle search

def shrink_list(items, still_fails, max_rounds=6):
    """Greedy delta debugging: drop chunks/items while `still_fails(items)`."""
    items = list(items)
    for _ in range(max_rounds):
        changed = False
        n = len(items)
        chunk = max(1, n // 4)
        while chunk >= 1:
            i = 0
            while i < len(items):
                cand = items[:i] + items[i + chunk:]
                if cand and still_fails(cand):
                    items = cand
                    changed = True
                else:
                    i += chunk
            chunk //= 2
        if not changed:
            break
    return items


def filter_profile(pid, r):
    """A dialect program for the filter oracles of property pid (inside the theorems' dialect)."""
    from . import gen
    regions = gen.random_regions(r)
    cfg = gen.random_cfg(r, regions)
    opts = gen.random_opts(r)
    if cfg["g90e"]:
        opts["rel"] = False
    if pid in ("C01", "C03", "C02") and r.random() < 0.5:
        opts["arcs"] = True         # arcs are where "every sampled point" matters
    if pid == "C02" and r.random() < 0.5:
        opts["at"] = True           # disable / enable windows: the position must keep being tracked
    if pid == "C02" and r.random() < 0.5:
        regions = []
        cfg["regions"] = []
    if pid == "C07":
        # relative moves produce round-off in the tracked values; with "G90/G91 influence the
        # extruder" they would also switch to relative extrusion, which is outside C04's quantifier
        # (the intended-value check of C07 re-uses the C03/C04 judgements)
        opts["rel"] = (r.random() < 0.7) and not cfg["g90e"]
        opts["retract_len"] = r.choice([1.0, 0.00001, 0.00002, 12345678.0])
        opts["tiny"] = r.random() < 0.6
        opts["g92e"] = True
    if pid == "C14":
        opts["at"] = True
        opts["at_junk"] = True
        if r.random() < 0.25:
            # patterns accepting an empty parameter text: the bare @-command triggers the action
            cfg["at"] = [("ExcludeRegion", "^\\s*$", "disable_exclusion"), ("ExcludeRegion", "on", "enable_exclusion"),
                         ("Other", "", "disable_exclusion")]
        elif r.random() < 0.5:
            # unanchored custom patterns: `match` anchors them at the start of the parameters, a
            # pattern found later in the text must not trigger the action
            cfg["at"] = [("ExcludeRegion", "off", "disable_exclusion"), ("ExcludeRegion", "on", "enable_exclusion")]
    if pid in ("C01", "C03", "C04", "C05", "C06") and r.random() < 0.25:
        opts["delregion"] = True        # regions deleted through the API while the program runs
    if r.random() < 0.3:
        opts["later_regions"] = [("R", "late%d" % i, 28.0 + 10 * i, 28.0, 33.0 + 10 * i, 33.0) for i in range(2)]
        opts["addregion"] = True
    if r.random() < 0.45:
        opts["wipe"] = (pid in ("C09", "C01", "C02")) and r.random() < 0.4
        if r.random() < 0.3 and not cfg["g90e"]:
            opts["rel"] = True
            opts["inch"] = True
        ops = gen.gen_episode_path(r, regions, opts)
    else:
        ops = gen.gen_path(r, regions, opts)
    evs = gen.encode_path(ops, nolead=(r.random() < 0.2))
    if pid == "C09":
        from . import suites
        for _ in range(r.randint(0, 8)):
            evs.insert(r.randint(2, len(evs)), ("g", r.choice(suites.ADVERSARIAL)))
    return cfg, evs


def c07_extreme_program(r, cfg):
    """Enter a region, then leave it to coordinates whose repr uses exponent notation (>= 1e16 or
    < 1e-4); tiny retractions inside.  The exit sequence and the recovery carry those numbers."""
    from . import suites
    regs = [g for g in cfg.get("regions", []) if g[0] == "R"]
    if regs:
        g = regs[0]
        inside = ((g[2] + g[4]) / 2, (g[3] + g[5]) / 2)
    else:
        cfg["regions"] = list(cfg.get("regions", [])) + [("R", "x7", 10.0, 10.0, 20.0, 20.0)]
        inside = (15.0, 15.0)

    def extreme():
        k = r.random()
        if k < 0.45:
            v = r.choice([1.2345678901234567e16, 9.87654321e17, 1e21, 2.5e16, 1.0000000000000002e16,
                          r.uniform(1e16, 1e17), r.uniform(1e17, 1e22)])
        elif k < 0.9:
            v = r.choice([1.5e-5, 3.3e-7, 1e-9, 9.999e-5, r.uniform(1e-9, 9e-5)])
        else:
            v = suites.rand_double(r)
        return v if r.random() < 0.5 else -v
    evs = [("g", "G28"), ("g", "G1 X1 Y1 Z0.3 F3000"), ("g", "G1 X2 Y1 E1")]
    if r.random() < 0.5:
        evs.append(("g", "G1 E%r" % (1 - r.choice([1.0, 0.00001, 0.000012345]))))
    evs.append(("g", "G1 X%r Y%r E2" % inside))
    if r.random() < 0.5:
        evs.append(("g", "G1 X%r Y%r E2.5" % (inside[0] + 0.5, inside[1])))
    x, y = extreme(), extreme()
    evs.append(("g", "G1 X%s Y%s%s" % (repr(x) if "e" not in repr(x) else "%.30f" % x if abs(x) < 1 else "%d" % x,
                                       repr(y) if "e" not in repr(y) else "%.30f" % y if abs(y) < 1 else "%d" % y,
                                       r.choice(["", " Z%s" % ("%.12f" % abs(extreme()) if r.random() < 0.5 else "5")]))))
    evs.append(("g", "G1 X3 Y3 E3"))
    return evs


def search_filter(pid, r, n, stats):
    from . import oracle, gen as gen_mod
    for _ in range(n):
        cfg, evs = filter_profile(pid, r)
        if pid == "C09" and r.random() < 0.3:
            # radius-form arcs whose radius is (the float nearest to) half the chord
            evs = [("g", "G28")]
            for _k in range(r.randint(1, 6)):
                a, b = round(r.uniform(0.1, 9), 1), round(r.uniform(0.1, 9), 1)
                rad = math.hypot(a, b) / 2 * r.choice([1, 1, -1])
                evs.append(("g", "G28 X Y"))
                evs.append(("g", "%s X%r Y%r R%r" % (r.choice(["G2", "G3"]), a, b, rad)))
        if pid == "C09" and r.random() < 0.12:
            # retractions while the tracked feed rate is still 0 (no F word yet, or an explicit F0)
            evs = [("g", "G28")]
            if r.random() < 0.5:
                evs.append(("g", r.choice(["G1 F0", "G0 X5 Y5", "G1 X5 Y5 F0", "G1 Z0.2"])))
            evs.append(("g", r.choice(["G1 E-2", "G0 X15 Y15 E-1", "G1 X30 Y30 E-0.5", "G1 E-1.5", "G0 E-3"])))
            evs.append(("g", r.choice(["G1 X15 Y15", "G1 X16 Y14 E0", "G1 E0", "G1 X44 Y43"])))
            evs.append(("g", r.choice(["G1 X30 Y31", "G1 E0", "G1 X30 Y30 E1", "G1 E-2"])))
            evs.append(("g", "G1 X3 Y3 E2"))
        if pid in ("C01", "C03", "C02") and r.random() < 0.08:
            # words whose value is exactly zero are words: a move to X0 / Y0 is a move
            if r.random() < 0.5:
                cfg = dict(cfg, regions=[("R", "o", -3.0, 8.0, 3.0, 14.0), ("R", "a", 10.0, 10.0, 20.0, 20.0)])
                evs = [("g", "G28"), ("g", "G1 X30 Y11 Z0.2 F3000"),
                       ("g", r.choice(["G1 X0 E1", "G1 X0", "G0 X0.0", "G1 X-0 E1"])),
                       ("g", "G1 X25 E2"), ("g", "G1 X26 E3")]
            else:
                cfg = dict(cfg, regions=[("R", "a", 10.0, 10.0, 20.0, 20.0)])
                evs = [("g", "G28"), ("g", "G1 X30 Y30 Z0.2 F3000"), ("g", r.choice(["G1 X0 Y0", "G0 X0 Y0.0", "G1 Y0 X0"])),
                       ("g", "G91"), ("g", r.choice(["G1 X15 Y15 E1", "G1 X15 Y15"])), ("g", "G1 X1 E2"), ("g", "G90"),
                       ("g", "G1 X30 Y30"), ("g", "G1 X31 Y30 E4")]
        if pid == "C09" and r.random() < 0.08:
            # linear moves with coordinates far beyond the square root of the largest double
            big = "1" + "0" * r.choice([150, 155, 160, 200, 300])
            cfg = dict(cfg, regions=[("C", "b", 44.0, 43.0, 5.0), ("R", "a", 10.0, 10.0, 20.0, 20.0)])
            evs = [("g", c) for c in r.choice([
                ["G28", "G1 X%s Y5 F3000" % big, "G1 X15 Y15", "G1 X30 Y30 E1"],
                ["G28", "G91", "G1 X%s" % big, "G1 X-%s" % big, "G90", "G1 X44 Y43", "G1 X-%s Y%s" % (big, big), "G1 X3 Y3"],
                ["G28", "G20", "G1 X%s Y1" % big, "G1 X1 Y1"],
                ["G28", "G1 X5 Y-%s Z%s" % (big, big), "G1 X44 Y43 Z1", "G1 X5 Y5"]])]
        if pid in ("C04", "C05") and r.random() < 0.08:
            # one retraction spanning two region visits: retracted inside the first region, still
            # retracted on the way to the second, recovered / printed / retracted again inside it
            fw = r.random() < 0.4
            cfg = dict(cfg, regions=list(gen_mod.DEFAULT_REGIONS))
            second = r.choice(["G1 X44 Y43", "G1 X12 Y18"])
            evs = [("g", c) for c in [
                "G28", "G1 X5 Y5 Z0.2 F3000", "G1 X6 Y5 E1", "G1 X15 Y15", "G10" if fw else "G1 E0 F1800",
                "G1 X30 Y30", second, "G11" if fw else "G1 E1 F1800", "G1 X%s E2" % ("45 Y43" if "44" in second else "13 Y18"),
                "G10" if fw else "G1 E1 F1800", "G1 X30 Y31", "G11" if fw else "G1 E2 F1800", "G1 X31 Y31 E3", "G1 X32 Y31 E4"]]
        if pid == "C02" and r.random() < 0.08:
            # arcs that stay clear of the region: a centre straight above / below the start (I = 0), then
            # a one-axis move that relies on the tracked end point; a short sweep about a far centre
            cfg = dict(cfg, regions=[("R", "a", 10.0, 10.0, 20.0, 20.0)])
            evs = [("g", c) for c in r.choice([
                ["G28", "G1 X30 Y15 F3000", "G3 X30 Y35 J10 E4", "G1 X15", "G1 X40 Y40 E5"],
                ["G28", "G1 X30 Y15 F3000", "G2 X30 Y-5 J-10", "G1 X15 E1", "G1 X40 Y40 E2"],
                ["G28", "G1 X30 Y2 F3000", "G2 X25 Y3 I0 J13 E1", "G1 X40 Y40 E2"],
                ["G28", "G1 X2 Y30 F3000", "G3 X3 Y25 I13 J0 E1", "G1 X40 Y40 E2"],
                ["G28", "G1 X15 Y30 F3000", "G2 X35 Y30 I10", "G1 Y15", "G1 X40 Y40 E2"]])]
        if pid == "C14" and r.random() < 0.08:
            # a configured pattern that accepts an empty parameter text, and the bare @-command in mid-episode
            pat = r.choice(["", "^\\s*$", ".*", "^(now)?$"])
            cfg = dict(cfg, regions=[("R", "a", 10.0, 10.0, 20.0, 20.0)],
                       at=[("ExcludeRegion", "on", "enable_exclusion"), ("PauseExclusion", pat, "disable_exclusion")])
            evs = [("g", "G28"), ("g", "G1 X5 Y5 Z0.2 F3000"), ("g", "G1 X6 Y5 E1"), ("g", "G1 X15 Y15"),
                   ("at", "PauseExclusion", r.choice(["", "", " "])), ("g", "G1 X16 Y16 E2"), ("g", "G1 X17 Y16 E3"),
                   ("at", "ExcludeRegion", "on"), ("g", "G1 X30 Y30"), ("g", "G1 X31 Y30 E4")]
        if pid in ("C14", "C01") and r.random() < 0.06:
            # re-enabled while the tool stands inside a region (it went there while exclusion was off):
            # the next command is a move without X/Y
            cfg = dict(cfg, regions=[("R", "a", 10.0, 10.0, 20.0, 20.0)])
            cfg.pop("at", None)
            evs = [("g", "G28"), ("g", "G1 X5 Y5 Z0.2 F3000"), ("at", "ExcludeRegion", "off"), ("g", "G1 X15 Y15 E1"),
                   ("at", "ExcludeRegion", "on"), ("g", r.choice(["G1 Z0.6 F600", "G1 Z0.6", "G0 Z1 E1.5"])),
                   ("g", "G1 X16 Y15 E2"), ("g", "G1 X30 Y30"), ("g", "G1 X31 Y30 E3")]
        if pid == "C07" and r.random() < 0.3:
            # tracked values far outside repr's plain range end up in the exit / recovery commands
            evs = c07_extreme_program(r, cfg)
        if pid in ("C04", "C05") and r.random() < 0.08:
            # the first region is defined between a retraction and its recovery
            fw = r.random() < 0.4
            cfg = dict(cfg, regions=[])
            evs = [("g", "G28"), ("g", "G1 X5 Y5 Z0.2 F3000"), ("g", "G1 X6 Y5 E1"),
                   ("g", "G10" if fw else "G1 E0 F1800"),
                   ("addregion", ("R", "late", 10.0, 10.0, 20.0, 20.0)),
                   ("g", "G1 X15 Y15"), ("g", "G11" if fw else "G1 E1 F1800"),
                   ("g", "G1 X30 Y30"), ("g", "G1 X31 Y30 E2"), ("g", "G1 X32 Y30 E3")]
        res, _h = oracle.run_events(cfg, evs)
        v = [x for x in oracle.judge(cfg, evs, res, [pid])]
        stats["evaluations"] += 1
        if v and v[-1][0] == "SKIP":
            stats["skipped"] += 1
            v = v[:-1]
        if any(len(e) > 1 and e[0] == "g" for e in evs):
            stats["nontrivial"].add(zlib.crc32(repr(evs).encode()))
        if v:
            def fails(cand):
                rr, _ = oracle.run_events(cfg, cand)
                vv = [x for x in oracle.judge(cfg, cand, rr, [pid]) if x[0] != "SKIP"]
                return bool(vv)
            small = shrink_list(evs, fails)
            rr, _ = oracle.run_events(cfg, small)
            vv = [x for x in oracle.judge(cfg, small, rr, [pid]) if x[0] != "SKIP"]
            return {"kind": "filter", "property": pid, "cfg": cfg, "events": [list(e) for e in small],
                    "violations": ["step %d: %s" % (i, m) for (_p, i, m) in vv],
                    "implementation_output": [list(map(str, x)) for x in rr]}
    return None


def judge_filter_case(pid, descr):
    """Apply the filter oracle to a (mismatching) correspondence case."""
    from . import oracle, replay
    rep = {"kind": "filter", "property": pid, "cfg": descr["cfg"], "events": descr["events"]}
    v, res = replay.run_filter_replay(rep)
    if v:
        cfg = replay.cfg_of(rep)
        evs = replay.events_of(rep)

        def fails(cand):
            rr, _ = oracle.run_events(cfg, cand)
            return bool([x for x in oracle.judge(cfg, cand, rr, [pid]) if x[0] != "SKIP"])
        small = shrink_list(evs, fails)
        rep["events"] = [list(e) for e in small]
        v, res = replay.run_filter_replay(rep)
        rep["violations"] = ["step %d: %s" % (i, m) for (_p, i, m) in v]
        return rep
    return None


def search_plugin(pid, r, n, stats):
    from . import suites, oracle_plugin
    for _ in range(n):
        st0 = suites.rand_settings(r)
        case = suites.gen_plugin_case(r)
        d = case.descr
        v = oracle_plugin.judge_plugin(d["settings"], d["ops"], [pid])
        stats["evaluations"] += 1
        stats["nontrivial"].add(zlib.crc32(repr(d["ops"]).encode()))
        if v:
            ops = d["ops"]
            small = shrink_list(ops, lambda c: bool(oracle_plugin.judge_plugin(d["settings"], c, [pid])))
            return {"kind": "plugin", "property": pid, "settings": d["settings"], "ops": small,
                    "violations": oracle_plugin.judge_plugin(d["settings"], small, [pid])}
    return None


def _c12_pair(r):
    """(old, new) region dicts biased to 'new almost contains old'."""
    k = r.random()
    cx, cy = r.choice([15.0, 20.0, 32.5]), r.choice([15.0, 18.0, 40.0])
    if r.random() < 0.06:
        # a circle defined with a negative radius (adds are always accepted), replaced by something small
        old = {"type": "CircularRegion", "cx": cx, "cy": cy, "r": -r.choice([6.0, 3.0])}
        new = r.choice([{"type": "RectangularRegion", "x1": cx - 1, "y1": cy - 1, "x2": cx + 1, "y2": cy + 1},
                        {"type": "CircularRegion", "cx": cx, "cy": cy, "r": 0.5}])
        return old, new
    if k < 0.35:
        rad = r.choice([5.0, 6.5, 10.0])
        d = [r.choice([0.2, 0.5, 0.62, 0.7, 0.8, 0.95]) * rad for _ in range(4)]
        old = {"type": "RectangularRegion", "x1": cx - d[0], "y1": cy - d[1], "x2": cx + d[2], "y2": cy + d[3]}
        new = {"type": "CircularRegion", "cx": cx, "cy": cy, "r": rad}
    elif k < 0.6:
        w, h = r.choice([4.0, 10.0]), r.choice([4.0, 6.0])
        old = {"type": "RectangularRegion", "x1": cx - w, "y1": cy - h, "x2": cx + w, "y2": cy + h}
        e = [r.choice([0.0, 0.0, 1.0, -0.5]) for _ in range(4)]
        new = {"type": "RectangularRegion", "x1": cx - w - e[0], "y1": cy - h - e[1], "x2": cx + w + e[2],
               "y2": cy + h + e[3]}
        if r.random() < 0.4:
            new[r.choice(["x1", "y1", "x2", "y2"])] = float("nan")
    elif k < 0.8:
        rad = r.choice([3.0, 5.0])
        old = {"type": "CircularRegion", "cx": cx, "cy": cy, "r": rad}
        new = {"type": "CircularRegion", "cx": cx + r.choice([0.0, 1.0, 3.0, 2.0]), "cy": cy + r.choice([0.0, 0.0, 2.0, 3.0]),
               "r": rad + r.choice([0.0, 1.0, 2.3, 2.9, 3.0, 4.0, -1.0])}
        if r.random() < 0.2:
            new[r.choice(["cx", "cy", "r"])] = float("nan")
    else:
        rad = r.choice([3.0, 5.0])
        old = {"type": "CircularRegion", "cx": cx, "cy": cy, "r": rad}
        e = [rad + r.choice([0.0, 0.5, -0.5, 2.0]) for _ in range(4)]
        new = {"type": "RectangularRegion", "x1": cx - e[0], "y1": cy - e[1], "x2": cx + e[2], "y2": cy + e[3]}
    return old, new


def search_c12(pid, r, n, stats):
    """directed: during a print with shrinking off, replace a region by one that almost covers it"""
    from . import oracle_plugin, gen
    st0 = {"clear": False, "shrink": False, "cfg": {"g90e": False, "enter": None, "exit": None, "ext": {}}}
    for _ in range(n):
        old, new = _c12_pair(r)
        ops = [("event", "PRINT_STARTED"), ("api", False, "addExcludeRegion", dict(old, id="a")),
               ("api", False, "updateExcludeRegion", dict(new, id="a"))]
        stats["evaluations"] += 1
        stats["nontrivial"].add(zlib.crc32(repr(ops).encode()))
        v = oracle_plugin.judge_plugin(st0, ops, [pid])
        if v:
            return {"kind": "plugin", "property": pid, "settings": st0, "ops": [list(o) for o in ops], "violations": v}
    return search_plugin(pid, r, max(1, n // 4), stats)


def search_c10(pid, r, n, stats):
    from . import suites, oracle_plugin, impl
    for _ in range(n):
        case = suites.gen_plugin_case(r)
        d = case.descr
        prog = []
        for _k in range(r.randint(4, 20)):
            cmd = r.choice(suites.PLUGIN_PROGRAM)
            prog.append(["gcode", cmd, impl.split_cmd(cmd)[0]])
            if r.random() < 0.1:
                prog.append(["at", "ExcludeRegion", r.choice(["off", "on"]), False])
        prog.append(["script", "gcode", "afterPrintDone"])
        v = oracle_plugin.c10_fresh(d["settings"], d["ops"], prog)
        stats["evaluations"] += 1
        stats["nontrivial"].add(zlib.crc32(repr((d["ops"], prog)).encode()))
        if v:
            hist = shrink_list(d["ops"], lambda c: bool(oracle_plugin.c10_fresh(d["settings"], c, prog)))
            prog2 = shrink_list(prog, lambda c: bool(oracle_plugin.c10_fresh(d["settings"], hist, c)))
            return {"kind": "c10", "property": pid, "settings": d["settings"], "history": hist,
                    "program": prog2, "violations": oracle_plugin.c10_fresh(d["settings"], hist, prog2)}
    return None


def search_c08(pid, r, n, stats):
    from . import gen, oracle_geo
    for _ in range(n):
        regions = [s for s in gen.random_regions(r)] or list(gen.DEFAULT_REGIONS)
        ops = gen.gen_path(r, list(regions), {"fw": r.random() < 0.3, "g92e": r.random() < 0.5, "max_len": 30})
        ops = [o for o in ops if o[0] not in ("at", "addregion")]
        idx = r.randint(2, max(2, len(ops) - 1))
        if r.random() < 0.25:
            idx = 0            # the usual start sequence: units and positioning mode first, then homing
        if r.random() < 0.3:
            # the program homes again somewhere in the middle (all axes)
            # (right after a move that ends outside every region: homing inside an episode is K-D18)
            outs = [k for k, o in enumerate(ops) if o[0] == "move" and o[1] is not None and o[2] is not None
                    and gen.classify(list(regions), o[1], o[2]) == "out"]
            if outs:
                k = r.choice(outs) + 1
                ops = ops[:k] + [("home",), ("move", 5.0, 5.0, 0.2, 0.0, 3000)] + ops[k:]
        stats["evaluations"] += 1
        stats["nontrivial"].add(zlib.crc32(repr(ops).encode()))
        for variant in ("inch", "rel", "inchrel"):
            v = oracle_geo.c08_reencode(r, regions, ops, variant, idx)
            if v:
                return {"kind": "reencode", "property": pid, "regions": [list(s) for s in regions],
                        "ops": [list(o) for o in ops], "variant": variant, "at_index": idx, "violations": v}
        vec = (r.choice([7.0, -2.5, 100.0]), r.choice([-3.0, 4.25, 50.0]))
        v = oracle_geo.c08_translate(regions, ops, vec)
        if v:
            return {"kind": "translate", "property": pid, "regions": [list(s) for s in regions],
                    "ops": [list(o) for o in ops], "vec": list(vec), "violations": v}
    return None


def search_c16(pid, r, n, stats):
    from . import oracle, oracle_geo
    for _ in range(n):
        start = (r.uniform(-100, 200), r.uniform(-100, 200))
        rad = r.choice([0.2, 1.0, 3.3, 25.0, 500.0, r.uniform(0.2, 500)])
        a = r.uniform(0, 2 * math.pi)
        centre = (start[0] + rad * math.cos(a), start[1] + rad * math.sin(a))
        sweep = r.choice([2 * math.pi, math.pi, math.pi / 2, r.uniform(0.001, 2 * math.pi),
                          # just short of a full turn: the end point lies within one unit of the start
                          2 * math.pi - r.uniform(1e-3, min(1.0, 0.9 / rad))])
        cw = r.random() < 0.5
        stats["evaluations"] += 1
        stats["nontrivial"].add(zlib.crc32(repr((start, centre, sweep, cw)).encode()))
        v = oracle_geo.c16_arc(start, centre, sweep, cw)
        if v:
            return {"kind": "arc", "property": pid, "start": list(start), "centre": list(centre),
                    "sweep": sweep, "cw": cw, "violations": v}
        # "an arc reaching deeper into a region than the sampling resolution is excluded as a whole":
        # slicer-style arcs (centre level with / straight above the start, or oblique) whose
        # midpoint lies 2 units inside a region
        rad2 = r.choice([5.0, 8.0, 12.5])
        sx, sy = r.choice([30.0, 42.5]), r.choice([30.0, 55.0])
        oi, oj = r.choice([(rad2, 0.0), (-rad2, 0.0), (0.0, rad2), (0.0, -rad2), (3.0 * rad2 / 5, 4.0 * rad2 / 5)])
        cw2 = r.random() < 0.5
        sw2 = r.choice([math.pi / 2, math.pi, 2 * math.pi - 0.05])      # the last: end point next to the start
        b0 = math.atan2(-oj, -oi)
        b1 = b0 + (-sw2 if cw2 else sw2)
        bm = b0 + (-sw2 if cw2 else sw2) / 2
        cx2, cy2 = sx + oi, sy + oj
        ex2, ey2 = round(cx2 + rad2 * math.cos(b1), 6), round(cy2 + rad2 * math.sin(b1), 6)
        mx, my = cx2 + rad2 * math.cos(bm), cy2 + rad2 * math.sin(bm)
        # (in inch mode the length unit is the inch: the same numbers, the region scaled)
        u2 = 25.4 if r.random() < 0.25 else 1.0
        cfg2 = {"regions": [("R", "m", (mx - 2.0) * u2, (my - 2.0) * u2, (mx + 2.0) * u2, (my + 2.0) * u2)]}
        arc_cmd = "%s X%s Y%s I%s J%s" % ("G2" if cw2 else "G3", repr(ex2), repr(ey2), repr(oi), repr(oj))
        evs2 = [("g", "G28")] + ([("g", "G20")] if u2 != 1.0 else []) + \
            [("g", "G1 X%r Y%r Z1" % (sx, sy)), ("g", arc_cmd)]
        res2, _h2 = oracle.run_events(cfg2, evs2)
        if arc_cmd in oracle.forwarded(evs2[-1], res2[-1]):
            return {"kind": "filter", "property": pid, "cfg": dict(cfg2, g90e=False, enter=None, exit=None, ext={}),
                    "events": [list(e) for e in evs2],
                    "violations": ["last step: arc %r passes 2 units deep through region %r but was forwarded"
                                   % (arc_cmd, cfg2["regions"][0])]}
        # the same arc line twice: the second starts where the first ended (a full circle about a
        # different centre); the points tested must belong to the arc actually commanded
        if r.random() < 0.2:
            x0, y0, rr2 = r.choice([40.0, 20.0]), r.choice([50.0, 30.0]), r.choice([5.0, 4.0])
            line = "G2 X%r Y%r I%r J0" % (x0 + 2 * rr2, y0, rr2)
            cfg3 = {"regions": [("R", "m", x0 + 4 * rr2 - 2.5, y0 - 2.0, x0 + 4 * rr2 + 2.5, y0 + 2.0)]}
            evs3 = [("g", "G28"), ("g", "G1 X%r Y%r Z1" % (x0, y0)), ("g", line), ("g", line)]
            res3, _h3 = oracle.run_events(cfg3, evs3)
            stats["evaluations"] += 1
            if line not in oracle.forwarded(evs3[2], res3[2]) or line in oracle.forwarded(evs3[3], res3[3]):
                return {"kind": "filter", "property": pid, "cfg": dict(cfg3, g90e=False, enter=None, exit=None, ext={}),
                        "events": [list(e) for e in evs3],
                        "violations": ["the first %r stays clear of region %r and must be forwarded, the second is a full "
                                       "circle through it and must not: results %r" % (line, cfg3["regions"][0], res3[2:])]}
        # radius form, axis-aligned chords only (oblique chords: known finding K-D10)
        d = r.choice([1.0, 4.0, 10.0, 0.5])
        end = (start[0] + d, start[1]) if r.random() < 0.5 else (start[0], start[1] - d)
        rr = r.choice([d / 2, d, -d, 3 * d, -0.75 * d])
        v = oracle.c16_centre(list(start), list(end), rr, cw)
        if v:
            return {"kind": "arccenter", "property": pid, "start": list(start), "end": list(end),
                    "radius": rr, "clockwise": cw, "violations": v}
    return None


def search_c17(pid, r, n, stats):
    from . import suites, oracle_geo
    for _ in range(n):
        a = suites.rand_region_spec(r, "a")
        b = suites.rand_region_spec(r, "a" if r.random() < 0.3 else "b")     # an update re-uses the id
        x, y = suites.rand_coord(r), suites.rand_coord(r)
        if r.random() < 0.3:
            # corners as a user types them (one decimal), any order
            a = ("R", "a") + tuple(round(r.uniform(0, 60), 1) for _k in range(4))
        if a[0] == "R" and r.random() < 0.6:
            # probe the edges and corners as given to the constructor, and the floats next to them
            x = r.choice([a[2], a[4], x])
            y = r.choice([a[3], a[5], (a[3] + a[5]) / 2, y])
            if r.random() < 0.3:
                x = math.nextafter(x, r.choice([-math.inf, math.inf]))
            if r.random() < 0.3:
                y = math.nextafter(y, r.choice([-math.inf, math.inf]))
        stats["evaluations"] += 1
        stats["nontrivial"].add(zlib.crc32(repr((a, b, x, y)).encode()))
        v = oracle_geo.c17_point(a, x, y)
        if v:
            return {"kind": "region_point", "property": pid, "a": list(a), "x": x, "y": y, "violations": v}
        v = oracle_geo.c17_contains_region(a, b)
        if v:
            return {"kind": "region_contains", "property": pid, "a": list(a), "b": list(b), "violations": v}
    return None


def search_c18(pid, r, n, stats):
    from . import suites, oracle_text, impl
    shared = impl.GcodeParser()
    for _ in range(n):
        text = "".join(suites.rand_line(r) + r.choice(["\n", "\r\n", "\r", ""]) for _ in range(r.randint(1, 5)))
        stats["evaluations"] += 1
        stats["nontrivial"].add(zlib.crc32(text.encode()))
        v = oracle_text.c18_lossless(text, shared if r.random() < 0.5 else None)
        if v:
            return {"kind": "lossless", "property": pid, "text": text, "violations": v,
                    "note": "parser object re-used across texts" }
        line = suites.rand_line(r, 0.9)
        v = oracle_text.c18_checksum(line, r.randint(0, 999))
        if v:
            return {"kind": "checksum", "property": pid, "line": line, "lineno": 7, "violations": v}
        v = oracle_text.c18_idempotent(line)
        if v:
            return {"kind": "idempotent", "property": pid, "line": line, "violations": v}
        # the same on a parser object that has parsed other lines before (as the plugin's parsers have)
        lines = [suites.rand_line(r, 0.9) for _ in range(r.randint(2, 4))]
        v = oracle_text.c18_idempotent_seq(lines)
        if v:
            return {"kind": "idempotent_seq", "property": pid, "lines": lines, "violations": v}
    return None


def search_c19(pid, r, n, stats):
    from . import oracle_text
    for _ in range(n):
        words = []
        for _k in range(r.randint(0, 6)):
            w = r.choice("XYZEFSPTIJRxyze") + r.choice(["", " ", "  "]) + \
                r.choice(["1", "1.5", "-2", ".5", "+1.", "", "10.25", "-0", "007", "1.", "+.5", "-12.", "3.", "", "0"])
            words.append(w)
        params = r.choice(["", " "]).join(words) if r.random() < 0.3 else " ".join(words)
        if r.random() < 0.25:
            # every letter a move handler reads, each with a value, then repeats: the last value wins
            letters = list("XYZEF")
            r.shuffle(letters)
            ws = ["%s%s" % (c, r.choice(["1", "2.5", "30", "0.4", "1500"])) for c in letters]
            ws += ["%s%s" % (r.choice("XYZEFxyzef"), r.choice(["35", "7", "0", "0.8", "-1", ""]))
                   for _k in range(r.randint(1, 3))]
            params = " ".join(ws)
        if r.random() < 0.12:
            params = r.choice(["X0", "X0 Y0", "X.0Y0.", "x0.0 y-0", "X5 X0", "Y 0 E3", "Y0", "X-0 Y+0"])
        stats["evaluations"] += 1
        stats["nontrivial"].add(zlib.crc32(params.encode()))
        v = oracle_text.c19_reader(params)
        if v:
            return {"kind": "reader", "property": pid, "params": params, "violations": v}
        if r.random() < 0.15:
            flags = " ".join(r.choice(["X", "Y", "Z", "X0", "W", "O", "R", "S1", "w", "Y Z", ""]) for _k in range(r.randint(0, 3)))
            v = oracle_text.c19_g28(flags)
            if v:
                return {"kind": "g28flags", "property": pid, "params": flags, "violations": v}
        if r.random() < 0.2:
            # arcs: flags and repeats anywhere among the words, a centre offset somewhere
            ws = []
            for _k in range(r.randint(2, 7)):
                ws.append(r.choice("XYZEFIJxyij") + r.choice(["", "", "1", "2.5", "-3", "0", "12", ".5", "40", "7."]))
            ws.insert(r.randint(0, len(ws)), r.choice(["I5", "J-4", "I2 J2", "i3", "J.5"]))
            arc = " ".join(ws)
            code = r.choice(["G2", "G3"])
            v = oracle_text.c19_arc(code, arc)
            if v:
                return {"kind": "arcwords", "property": pid, "code": code, "params": arc, "violations": v}
    return None


def search_c20(pid, r, n, stats):
    from . import suites, oracle_text, gen
    for _ in range(n):
        regions = gen.random_regions(r)
        cfg = gen.random_cfg(r, regions)
        pre = []
        if r.random() < 0.6:
            opts = gen.random_opts(r)
            opts["max_len"] = 12
            if cfg["g90e"]:
                opts["rel"] = False
            pre = gen.encode_path(gen.gen_path(r, regions, opts))
        lines = suites.rand_file(r)
        if r.random() < 0.12:
            # several actions for one @-command, the matching one not the last: switching off inside an
            # episode must give the same exit sequence as the live hooks
            cfg = dict(cfg, at=r.choice([
                [("ExcludeRegion", "off", "disable_exclusion"), ("ExcludeRegion", "on", "enable_exclusion")],
                [("ExcludeRegion", "off", "disable_exclusion"), ("ExcludeRegion", "on", "enable_exclusion"),
                 ("Other", None, "enable_exclusion")]]))
            cfg["regions"] = [("R", "a", 10.0, 10.0, 20.0, 20.0)]
            lines = [ln + "\n" for ln in ["G28", "G1 X5 Y5 Z0.2 F3000", "G1 X15 Y15 E1", "M117 hi", "@ExcludeRegion off",
                                          "G1 X16 Y16 E2", "@ExcludeRegion on", "G1 X30 Y30", "G1 X31 Y30 E3"]]
        stats["evaluations"] += 1
        stats["nontrivial"].add(zlib.crc32(repr((pre, lines)).encode()))
        v = oracle_text.c20_stream(cfg, pre, lines)
        if v:
            small = shrink_list(lines, lambda c: bool(oracle_text.c20_stream(cfg, pre, c)))
            vv = oracle_text.c20_stream(cfg, pre, small)
            return {"kind": "stream", "property": pid, "cfg": cfg, "pre": [list(e) for e in pre],
                    "lines": small, "violations": ["line %d: %s" % (i, m) for (i, m) in vv]}
    return None


SEARCH = {"filter": search_filter, "plugin": search_plugin, "c12": search_c12, "c10": search_c10, "c08": search_c08,
          "c16": search_c16, "c17": search_c17, "c18": search_c18, "c19": search_c19, "c20": search_c20}

ORACLE_N = {  # (quick when ties hold, search size when a tie is broken); thorough: 4 x the latter
    "filter": (150, 3000), "plugin": (60, 1200), "c12": (120, 3000), "c10": (40, 800), "c08": (25, 500), "c16": (150, 4000),
    "c17": (400, 20000), "c18": (500, 30000), "c19": (600, 30000), "c20": (80, 2500),
}


# ----------------------------------------------------------------------------- main driver

def stable_seed(pid, seed, salt):
    return (seed * 1000003 + zlib.crc32((pid + salt).encode())) & 0x7fffffff


def run_suite(name, n, r):
    from . import suites
    genname = registry.SUITES[name][0]
    if genname == "gen_filter_mixed":
        def g(rr):
            k = rr.random()
            return suites.gen_filter_case(rr, adversarial=(k < 0.4), offsets=(k < 0.15))
    else:
        g = getattr(suites, genname)
    from . import guard
    if name == "plugin":
        suites.plugin_env()         # importing OctoPrint is not part of any case's time limit
    cases = []
    for k in range(n):
        try:
            with guard.watchdog():
                cases.append(g(r))      # runs the implementation on the generated operations
        except guard.ImplTimeout as exc:
            raise guard.ImplTimeout("%s while executing generated case #%d of suite %s" % (exc, k, name))
    bad = suites.run_cases(cases)
    steps = sum(len(c.steps) for c in cases)
    iso = [c for c in cases if getattr(c, "isolation_broken", False)]
    return cases, bad, steps, iso


def run_property(pid, tier, seed):
    from . import replay as replay_mod
    t0 = time.time()
    P = registry.PROPS[pid]
    broken = []          # ties that no longer hold
    notes = []
    obligations = []     # (name, discharged?)
    samples = []

    # ---- 1/2 translator + Lean
    lean_ok = True
    with checker.Lock("lake.lock"):
        ok, msg = checker.translate()
        obligations.append(("translator regenerates ERP/Gen from /repo", ok))
        if not ok:
            broken.append({"tie": "translator", "detail": msg})
        modpath = os.path.join(checker.LEAN, *P["module"].split(".")) + ".lean"
        targets = [P["module"], "erpdrv"] if os.path.exists(modpath) else ["erpdrv"]
        if not os.path.exists(modpath):
            notes.append("no Lean property module %s yet (property not claimed in MANIFEST)" % P["module"])
        ok, errs, _out = checker.lake_build(targets)
        obligations.append(("lake build %s erpdrv" % P["module"], ok))
        if not ok:
            lean_ok = False
            broken.append({"tie": "lean-build", "detail": errs})
        hits = checker.forbidden_tokens()
        obligations.append(("no sorry/admit/axiom/native_decide/bv_decide in lean sources", not hits))
        if hits:
            broken.append({"tie": "forbidden-token", "detail": hits[:5]})
        axioms = {}
        if lean_ok and P["theorems"]:
            ok, axioms, problems = checker.audit(P["module"], P["theorems"])
            for t in P["theorems"]:
                good = t in axioms and all(a in checker.ALLOWED_AXIOMS for a in axioms[t])
                obligations.append(("theorem %s (axioms: %s)" % (t, ",".join(axioms.get(t, ["?"])) or "none"), good))
            if not ok:
                broken.append({"tie": "axiom-audit", "detail": problems[:6]})
        elif not P["theorems"]:
            notes.append("registry lists no theorem for %s yet (property not claimed in MANIFEST)" % pid)
        if tier == "thorough" and lean_ok and os.path.exists(modpath):
            # independent re-check of the compiled proofs by the toolchain's kernel re-checker
            rc, out = checker.sh(["lake", "env", "leanchecker", P["module"]], cwd=checker.LEAN, timeout=3600)
            obligations.append(("leanchecker %s" % P["module"], rc == 0))
            if rc != 0:
                broken.append({"tie": "leanchecker", "detail": out[-400:]})

    # ---- 3 correspondence suites
    suite_stats = {}
    mismatches = []
    driver_ok = os.path.exists(os.path.join(checker.LEAN, ".lake", "build", "bin", "erpdrv"))
    if driver_ok:
        for sname in P["suites"]:
            n = registry.SUITES[sname][1 if tier == "quick" else 2]
            r = random.Random(stable_seed(pid, seed, sname))
            try:
                cases, bad, steps, iso = run_suite(sname, n, r)
            except Exception as exc:  # pylint: disable=broad-except
                broken.append({"tie": "suite:" + sname, "detail": "suite crashed: %s: %s" % (type(exc).__name__, exc)})
                obligations.append(("correspondence suite %s" % sname, False))
                continue
            hist = {}
            for c in cases:
                for st in c.steps:
                    w = st.line.split(" ", 1)[0] if st.line else ""
                    hist[w] = hist.get(w, 0) + 1
            suite_stats[sname] = {"cases": len(cases), "operations": steps, "mismatches": len(bad),
                                  "op_histogram": dict(sorted(hist.items()))}
            obligations.append(("correspondence suite %s: %d cases, %d operations, model = implementation"
                                % (sname, len(cases), steps), not bad and not iso))
            if cases:
                samples.append({"suite": sname, "case": cases[0].descr if len(json.dumps(cases[0].descr, default=str)) < 1500
                                else {"kind": cases[0].descr.get("kind"), "steps": len(cases[0].steps)}})
            for (c, mm) in bad[:3]:
                mismatches.append({"suite": sname, "case": c.descr, "mismatch": mm})
            if bad:
                broken.append({"tie": "suite:" + sname, "detail": "%d of %d cases differ; first: %s" % (
                    len(bad), len(cases), json.dumps(bad[0][1], default=str)[:400])})
            if iso:
                broken.append({"tie": "suite:" + sname, "detail": "live state modified by stream processing"})
    else:
        broken.append({"tie": "driver", "detail": "erpdrv not built"})

    # ---- 4 replays of repaired defects and known findings
    kf = json.load(open(os.path.join(ROOT, "known_findings.json")))["findings"]
    violations = []      # (replay dict or path, message)
    known_lines = []
    for f in kf:
        if f["property"] != pid:
            continue
        rep = replay_mod.load(os.path.join(ROOT, f["replay"]))
        try:
            v = replay_mod.run_replay(rep)
        except Exception as exc:  # pylint: disable=broad-except
            v = ["replay crashed: %s: %s" % (type(exc).__name__, exc)]
        if f["status"] == "fixed":
            obligations.append(("repaired defect stays repaired: %s" % f["replay"], not v))
            if v:
                violations.append((os.path.join(ROOT, f["replay"]), "regression of %s: %s" % (f["line"], v[0])))
        else:
            if v:
                known_lines.append("KNOWN-FINDING: property=%s %s [%s] %s" % (pid, f["id"], f["where"], f["what"]))
            else:
                notes.append("known finding %s no longer reproduces" % f["id"])

    # ---- 5 oracle pass (always, small) / failing-input search (when a tie is broken, large)
    stats = {"evaluations": 0, "skipped": 0, "nontrivial": set()}
    okind = P["oracle"]
    n_small, n_big = ORACLE_N[okind]
    n = 4 * n_big if tier == "thorough" else (n_big if broken else n_small)
    found = None
    r = random.Random(stable_seed(pid, seed, "oracle"))
    # (a) the mismatching cases themselves
    for m in mismatches:
        d = m["case"]
        if d.get("kind") == "filter" and okind == "filter":
            try:
                found = judge_filter_case(pid, d)
            except Exception:  # pylint: disable=broad-except
                found = None
            if found:
                found["from"] = "shrunk correspondence mismatch"
                break
        elif d.get("kind") == "plugin" and (okind in ("plugin", "c12") or pid == "C06"):
            from . import oracle_plugin
            v = oracle_plugin.judge_plugin(d["settings"], d["ops"], [pid])
            if v:
                found = {"kind": "plugin", "property": pid, "settings": d["settings"], "ops": d["ops"],
                         "violations": v, "from": "correspondence mismatch"}
                break
        elif d.get("kind") == "stream" and okind == "c20":
            from . import oracle_text
            v = oracle_text.c20_stream(replay_mod.cfg_of(d), replay_mod.events_of(d, "pre"), d["lines"])
            if v:
                found = {"kind": "stream", "property": pid, "cfg": d["cfg"], "pre": d["pre"], "lines": d["lines"],
                         "violations": ["line %d: %s" % (i, x) for (i, x) in v], "from": "correspondence mismatch"}
                break
    if found is None:
        try:
            found = SEARCH[okind](pid, r, n, stats)
            if found is None and pid == "C06":
                # scripts and deferred commands through the plugin's hooks, print by print
                found = search_plugin(pid, r, max(30, n // 10), stats)
        except Exception as exc:  # pylint: disable=broad-except
            notes.append("oracle search crashed: %s: %s" % (type(exc).__name__, exc))
            broken.append({"tie": "oracle", "detail": "oracle search crashed: %s: %s" % (type(exc).__name__, exc)})
    obligations.append(("oracle pass on the implementation: %d cases, no violation of %s" % (stats["evaluations"], pid),
                        found is None))

    # ---- verdict
    os.makedirs(os.path.join(ROOT, "replays"), exist_ok=True)
    exit_code = 0
    for line in known_lines:
        print(line)
    for (path, msg) in violations:
        print("  " + msg)
        print("VIOLATION property=%s replay=%s" % (pid, path))
        exit_code = 1
    if found is not None:
        path = os.path.join(ROOT, "replays", "%s-seed%d.json" % (pid, seed))
        found["broken_ties"] = broken
        checker.write_json(path, found)
        for v in found.get("violations", [])[:3]:
            print("  " + str(v))
        print("VIOLATION property=%s replay=%s" % (pid, path))
        exit_code = 1
    elif broken:
        path = os.path.join(ROOT, "replays", "%s-seed%d-unproved.json" % (pid, seed))
        checker.write_json(path, {"kind": "unproved", "property": pid,
                                  "what_no_longer_checks": broken, "mismatches": mismatches,
                                  "search": {"oracle": okind, "cases": stats["evaluations"]},
                                  "note": "no input violating the property was found on the implementation; "
                                          "the property is no longer shown to hold"})
        for b in broken[:4]:
            print("  broken tie: %s: %s" % (b["tie"], str(b["detail"])[:300]))
        print("VIOLATION property=%s replay=%s no-failing-input-found" % (pid, path))
        exit_code = 1

    # ---- evidence
    n_obl = len(obligations)
    n_dis = sum(1 for (_n, okk) in obligations if okk)
    ev = {
        "property_id": pid, "tier": tier, "seed": seed, "level": "proof",
        "coverage": {
            "obligations": n_obl, "discharged": n_dis,
            "checker_cmd": "cd lean && lake build %s erpdrv && lake env lean <#print axioms audit>; "
                           "then harness correspondence suites %s" % (P["module"], ",".join(P["suites"])),
            "trusted_base": registry.TRUSTED_BASE,
            "obligation_list": [{"obligation": nme, "discharged": okk} for (nme, okk) in obligations],
            "axioms": axioms,
            "suites": suite_stats,
            "evaluations": stats["evaluations"] + sum(s["cases"] for s in suite_stats.values()),
            "distinct_nontrivial": len(stats["nontrivial"]),
            "rule": "oracle cases: distinct generated inputs (crc of the input); suites: generated cases compared op by op",
            "samples": samples[:3] or [{"note": "no suite ran"}],
            "known_findings_reported": known_lines,
            "broken_ties": broken,
            "notes": notes,
        },
        "assumptions": registry.TRUSTED_BASE,
        "wall_s": round(time.time() - t0, 2),
        "violations": (1 if exit_code == 1 else 0),
    }
    # VERIF_EVIDENCE_DIR lets the seeded-change runs (harness/seedtest.py) keep their evidence out of
    # the committed directory; every registered command writes to /verif/evidence
    evdir = os.environ.get("VERIF_EVIDENCE_DIR") or os.path.join(ROOT, "evidence")
    os.makedirs(evdir, exist_ok=True)
    checker.write_json(os.path.join(evdir, "%s.json" % pid), ev)
    print("%s %s tier=%s seed=%d obligations=%d/%d wall=%.1fs" % (
        pid, "PASS" if exit_code == 0 else "FAIL", tier, seed, n_dis, n_obl, time.time() - t0))
    return exit_code
