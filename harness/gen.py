"""Generators: abstract tool paths, encoders to G-code text, region sets, configurations.

Every random choice comes from the random.Random instance passed in (seeded from VERIF_SEED).

Abstract operations (all coordinates native millimetres):
  ('home',)                       G28
  ('move', x, y, z|None, de)      linear move to (x,y[,z]) pushing de >= 0 of filament
  ('arc', cw, x, y, cx, cy, de)   arc to (x,y) about centre (cx,cy)
  ('z', z)                        Z-only move
  ('eonly', de)                   E-only retract (de<0) / recover (de>0)
  ('fw', 'G10'|'G11', params)     firmware retract/recover
  ('g92e', v)                     G92 E<v> (v in mm)
  ('feed', f)                     G1 F
  ('code', text)                  any other command, verbatim
  ('at', cmd, params)             @-command
  ('abs', bool) / ('unit', 'mm'|'in')    encoding switches (G90/G91, G21/G20)
  ('addregion', spec)             region added through the state while the program runs
"""
import collections
import math

INCH = 25.4


def fmt(v, nd=5):
    s = ("%.*f" % (nd, v))
    if "." in s:
        s = s.rstrip("0").rstrip(".")
    if s in ("-0", ""):
        s = "0"
    return s


class Encoder(object):
    """Turns abstract operations into G-code text, tracking the encoding frame."""

    def __init__(self, nd=5):
        self.abs = True
        self.unit = 1.0
        self.pos = [0.0, 0.0, 0.0]
        self.e = 0.0         # logical absolute E in mm
        self.nd = nd
        self.g92shift = [0.0, 0.0, 0.0]   # native = logical*unit + shift

    def _c(self, i, v):
        if self.abs:
            return fmt((v - self.g92shift[i]) / self.unit, self.nd)
        return fmt((v - self.pos[i]) / self.unit, self.nd)

    def _track(self, i, v):
        # what the printer will really do with the rounded text (keeps relative drift honest)
        t = float(self._c(i, v)) * self.unit
        self.pos[i] = t + self.g92shift[i] if self.abs else self.pos[i] + t

    def encode(self, op):
        k = op[0]
        if k == "home":
            self.pos = [0.0, 0.0, 0.0]
            self.g92shift = [0.0, 0.0, 0.0]
            return ["G28"]
        if k == "move":
            _, x, y, z, de = op[:5]
            w = ["G1"]
            if x is not None:
                w.append("X" + self._c(0, x)); self._track(0, x)
            if y is not None:
                w.append("Y" + self._c(1, y)); self._track(1, y)
            if z is not None:
                w.append("Z" + self._c(2, z)); self._track(2, z)
            if de:
                self.e += de
                w.append("E" + fmt(self.e / self.unit, self.nd))
            if len(op) > 5 and op[5]:
                w.append("F" + fmt(op[5] / self.unit, 3))
            return [" ".join(w)]
        if k == "arc":
            _, cw, x, y, cx, cy, de = op
            w = ["G2" if cw else "G3"]
            i = (cx - self.pos[0]) / self.unit
            j = (cy - self.pos[1]) / self.unit
            w.append("X" + self._c(0, x))
            w.append("Y" + self._c(1, y))
            w.append("I" + fmt(i, self.nd))
            w.append("J" + fmt(j, self.nd))
            self._track(0, x); self._track(1, y)
            if de:
                self.e += de
                w.append("E" + fmt(self.e / self.unit, self.nd))
            return [" ".join(w)]
        if k == "z":
            s = "G1 Z" + self._c(2, op[1]); self._track(2, op[1])
            return [s]
        if k == "eonly":
            self.e += op[1]
            return ["G1 E%s F%s" % (fmt(self.e / self.unit, self.nd), fmt(1800 / self.unit, 3))]
        if k == "fw":
            # op[2]: parameter text with its own separator ("", " S1", "S1", "  S1"); op[3]: indented
            par = op[2] if (not op[2] or op[2][0] == " " or (len(op) > 3 and op[3] == "compact")) else " " + op[2]
            text = (" " if len(op) > 3 and op[3] == "indent" else "") + op[1] + par
            return [text.lower() if len(op) > 3 and op[3] == "lower" else text]
        if k == "g92e":
            self.e = op[1]
            return ["G92 E" + fmt(op[1] / self.unit, self.nd)]
        if k == "feed":
            return ["G1 F" + fmt(op[1] / self.unit, 3)]
        if k == "code":
            return [op[1]]
        if k == "abs":
            self.abs = op[1]
            return ["G90" if op[1] else "G91"]
        if k == "unit":
            self.unit = INCH if op[1] == "in" else 1.0
            return ["G20" if op[1] == "in" else "G21"]
        if k == "g92xyz":
            # re-base so that the current position reads as op[1..3] (logical, in current units)
            out = ["G92"]
            for i, a in enumerate("XYZ"):
                if op[1 + i] is not None:
                    out.append(a + fmt(op[1 + i], self.nd))
                    self.g92shift[i] = self.pos[i] - float(fmt(op[1 + i], self.nd)) * self.unit
            return [" ".join(out)]
        raise ValueError(op)


GRID_IN = [(12.0, 12.0), (15.0, 15.0), (18.0, 13.0), (11.0, 19.0), (14.5, 16.25), (42.0, 41.0),
           (45.0, 44.0)]
GRID_OUT = [(5.0, 5.0), (30.0, 30.0), (25.0, 5.0), (2.0, 28.0), (60.0, 12.0), (33.5, 7.25),
            (70.0, 70.0), (0.0, 15.0), (14.0, 0.0)]

DEFAULT_REGIONS = [("R", "a", 10.0, 10.0, 20.0, 20.0), ("C", "b", 44.0, 43.0, 5.0)]


def in_region(spec, x, y, margin=0.0):
    """Independent membership test with a margin (>0: deep inside; <0: within |margin| of it)."""
    if spec[0] == "R":
        _, _, x1, y1, x2, y2 = spec
        x1, x2 = min(x1, x2), max(x1, x2)
        y1, y2 = min(y1, y2), max(y1, y2)
        return x1 + margin <= x <= x2 - margin and y1 + margin <= y <= y2 - margin
    _, _, cx, cy, r = spec
    return math.hypot(x - cx, y - cy) <= r - margin


def classify(regions, x, y, margin=1e-3):
    """'in' (deep inside some region), 'out' (clear of all regions), or 'edge' (ambiguous)."""
    if any(in_region(s, x, y, margin) for s in regions):
        return "in"
    if any(in_region(s, x, y, -margin) for s in regions):
        return "edge"
    return "out"


DEFERRED_CFG = {"G4": "exclude", "M204": "merge", "M205": "merge", "M117": "last", "M73": "first",
                "M106": "last", "M900": "merge"}
CODES = ["M117 Layer 3", "M117 Layer 3", "M204 S800 T", "M204 P1000.", "M205 X Y8", "M73 P", "M106", "M204 S500",
         "M117 hello world", "M117 layer 2", "M204 P500", "M204 T700 P300", "M204 S1000", "M205 X0 Y8",
         "M204 P0 T0", "M900 K0", "M106 S0",
         "M205 X8 Y8", "M205 Z0.4", "M73 P5", "M73 P7 R20", "G4 P10", "M104 S200", "M106 S128",
         "M106 S255", "M107", "M900 K0.2", "M900 K0.5 L1", "T0", "M400", "G4 S1", "M84"]


def gen_path(r, regions, opts):
    """A slicer-shaped abstract path. opts: fw, rel, inch, arcs, g92e, at, deferred, addregion."""
    ops = [("home",)]
    if opts.get("inch") and r.random() < 0.5:
        ops.append(("unit", "in"))
    ops.append(("move", 5.0, 5.0, 0.2, 0.0, 3000))
    retracted = False
    a = opts.get("retract_len", 1.0)
    z = 0.2
    x, y = 5.0, 5.0
    n = r.randint(opts.get("min_len", 8), opts.get("max_len", 45))
    enabled = True
    absmode = True
    mm = not any(o == ("unit", "in") for o in ops)
    for _ in range(n):
        k = r.random()
        if k < 0.42:
            pool = GRID_IN if r.random() < 0.5 else GRID_OUT
            nx, ny = r.choice(pool)
            nx += r.choice([0, 0.5, -0.25, 1.0])
            ny += r.choice([0, 0.5, -0.25, -1.0])
            if classify(regions + opts.get("later_regions", []), nx, ny) == "edge":
                continue
            ext = (not retracted) and r.random() < 0.7
            nz = None
            if r.random() < 0.15:
                z = round(z + r.choice([0.2, 0.4, -0.2] if z > 0.4 else [0.2]), 4)
                nz = z
            style = r.random()
            if style < 0.12:
                ops.append(("move", nx, None, nz, r.choice([0.5, 0.25]) if ext else 0.0))
                x = nx
            elif style < 0.2:
                ops.append(("move", None, ny, nz, r.choice([0.5, 0.25]) if ext else 0.0))
                y = ny
            else:
                ops.append(("move", nx, ny, nz, r.choice([0.5, 0.25, 1.0]) if ext else 0.0))
                x, y = nx, ny
        elif k < 0.62:
            if opts.get("fw"):
                ops.append(("fw", "G11" if retracted else "G10", r.choice(["", "", "S1", "  S1"]),
                            r.choice(["", "", "", "indent", "compact", "lower"])))
            else:
                ops.append(("eonly", a if retracted else -a))
            retracted = not retracted
        elif k < 0.64 and not retracted and not opts.get("fw"):
            # an extruder-only extrusion of its own (prime / purge), not part of a retract cycle
            ops.append(("eonly", r.choice([0.5, 2.0, 5.0])))
        elif k < 0.68:
            z = round(z + (r.choice([0.2, 0.4, -0.2]) if z > 0.4 else 0.2), 4)
            ops.append(("z", z))
        elif k < 0.73 and opts.get("g92e") and not opts.get("fw"):
            ops.append(("g92e", r.choice([0.0, 0.0, 2.5])))
        elif k < 0.80:
            ops.append(("code", r.choice(CODES)))
        elif k < 0.83:
            ops.append(("feed", r.choice([1200.0, 2400.0, 3000.0])))
        elif k < 0.87 and opts.get("rel"):
            absmode = r.random() < 0.5
            ops.append(("abs", absmode))
        elif k < 0.90 and opts.get("inch"):
            u = r.choice(["mm", "in"])
            mm = (u == "mm")
            ops.append(("unit", u))
        elif k < 0.93 and opts.get("at"):
            if enabled:
                ops.append(("at", "ExcludeRegion", r.choice(["off", "disable", " off now"])))
            else:
                ops.append(("at", "ExcludeRegion", r.choice(["on", "enable"])))
            enabled = not enabled
            if r.random() < (0.85 if opts.get("at_junk") else 0.4):
                ops.append(("at", r.choice(["ExcludeRegion", "ExcludeRegion", "Other", "Region"]),
                            r.choice(["", "", " "]) if r.random() < 0.3 else
                            r.choice(["bogus", "offf", "turn off", "not on", "x off", "go on", "stop",
                                      "OFF", "ON", "Off", "On", "DISABLE", "Enable", "Skip-OFF", "Skip-ON",
                                      "skip-off", "skip-on"])))
        elif k < 0.96 and opts.get("arcs") and (absmode or opts.get("rel_arcs")) \
                and (mm or opts.get("inch_arcs")):
            # arc about a centre; keep it on a grid so that it is exact
            rad = r.choice([2.0, 3.0, 5.0])
            cw = r.random() < 0.5
            t = r.choice([0, 0, 1, 2, 3])       # centre to the right of / above / left of / below the start
            cx, cy = x + rad * (1, 0, -1, 0)[t], y + rad * (0, 1, 0, -1)[t]
            quarter = r.choice([1, 2, 3, 4])
            ang = math.pi + t * math.pi / 2 + (-1 if cw else 1) * quarter * math.pi / 2
            ex = round(cx + rad * math.cos(ang), 6)
            ey = round(cy + rad * math.sin(ang), 6)
            ops.append(("arc", cw, ex, ey, cx, cy, 0.0 if retracted else r.choice([0.0, 0.5])))
            x, y = ex, ey
        elif opts.get("addregion") and opts.get("later_regions") and r.random() < 0.5:
            ops.append(("addregion", opts["later_regions"].pop(0)))
    return ops


def gen_episode_path(r, regions, opts):
    """Dense episodes: the program enters and leaves regions several times, with encoding switches
    (G90/G91, G20/G21), retract cycles, Z hops, deferred codes, G92 E and primes placed before,
    inside and after every episode, and every way of ending an episode (move out, @-command)."""
    ops = [("home",)]
    mm = True
    if opts.get("inch") and r.random() < 0.4:
        ops.append(("unit", "in"))
        mm = False
    ops.append(("move", 5.0, 5.0, 0.2, 0.0, 3000))
    st = {"retracted": False, "z": 0.2, "abs": True, "mm": mm, "x": 5.0, "y": 5.0}
    a = opts.get("retract_len", 1.0)
    allr = regions + opts.get("later_regions", [])
    live_ids = [g[1] for g in regions]

    def goto(pool, ext_ok=True):
        for _ in range(6):
            nx, ny = r.choice(pool)
            nx += r.choice([0, 0.5, -0.25])
            ny += r.choice([0, 0.5, -0.25])
            if opts.get("tiny") and pool is GRID_OUT and r.random() < 0.3:
                nx, ny = r.choice([(-0.00002, 25.0), (26.0, -0.00003), (-0.000015, -0.00004)])
            if classify(allr, nx, ny) != "edge":
                break
        else:
            return
        ext = ext_ok and (not st["retracted"]) and r.random() < 0.6
        nz = None
        if r.random() < 0.2:
            st["z"] = round(st["z"] + r.choice([0.2, 0.4, -0.2] if st["z"] > 0.4 else [0.2]), 4)
            nz = st["z"]
        de = r.choice([0.5, 0.25, 1.0]) if ext else 0.0
        if opts.get("wipe") and r.random() < 0.25:
            de = -r.choice([0.5, 0.25])      # retracting move (wipe): outside the C04/C05 protocol
        ops.append(("move", nx, ny, nz, de))
        st["x"], st["y"] = nx, ny

    def filler(inside):
        k = r.random()
        if k < 0.25:
            if opts.get("fw"):
                ops.append(("fw", "G11" if st["retracted"] else "G10", r.choice(["", "", "S1", "  S1"]),
                            r.choice(["", "", "", "indent", "compact", "lower"])))
            else:
                ops.append(("eonly", a if st["retracted"] else -a))
            st["retracted"] = not st["retracted"]
        elif k < 0.35:
            st["z"] = round(st["z"] + (r.choice([0.2, 0.4, -0.2]) if st["z"] > 0.4 else 0.2), 4)
            ops.append(("z", st["z"]))
        elif k < 0.47 and opts.get("inch"):
            st["mm"] = not st["mm"]
            ops.append(("unit", "mm" if st["mm"] else "in"))
        elif k < 0.59 and opts.get("rel"):
            st["abs"] = not st["abs"]
            ops.append(("abs", st["abs"]))
        elif k < 0.72:
            ops.append(("code", r.choice(CODES)))
        elif k < 0.77 and opts.get("g92e") and not opts.get("fw"):
            ops.append(("g92e", r.choice([0.0, 0.0, 2.5] + ([-0.00003, -0.00002] if opts.get("tiny") else []))))
        elif k < 0.82 and not st["retracted"] and not opts.get("fw"):
            ops.append(("eonly", r.choice([0.5, 2.0])))
        elif k < 0.86:
            ops.append(("feed", r.choice([1200.0, 2400.0, 3000.0])))
        elif k < 0.89 and opts.get("delregion") and live_ids:
            # a region deleted through the API while the program runs (also the one the tool is in)
            ops.append(("delregion", live_ids.pop(r.randrange(len(live_ids)))))
        else:
            goto(GRID_IN if inside else GRID_OUT)

    for _ep in range(r.randint(1, 4)):
        for _ in range(r.randint(0, 3)):
            filler(False)
        if opts.get("g92e") and not opts.get("fw") and not st["retracted"] and r.random() < 0.15:
            # retract outside, recovery skipped inside (owed), the slicer's `G92 E0` while it is owed,
            # then out and on with the print
            ops.append(("eonly", -a))
            st["retracted"] = True
            goto(GRID_IN)
            ops.append(("eonly", a))
            st["retracted"] = False
            if r.random() < 0.5:
                ops.append(("g92e", r.choice([0.0, 2.5])))
            goto(GRID_OUT)
            if r.random() < 0.5:
                ops.append(("g92e", 0.0))
            goto(GRID_OUT, True)
            continue
        goto(GRID_IN)
        if r.random() < 0.12:
            # a last/first-mode code repeated verbatim with another deferred code in between
            a_code, b_code = r.choice(["M117 Layer 3", "M106 S255", "M73 P5"]), r.choice(["M204 S500", "M205 X8 Y8", "M900 K0.2"])
            ops += [("code", a_code), ("code", b_code), ("code", a_code)]
        for _ in range(r.randint(0, 5)):
            filler(True)
        if opts.get("delregion") and live_ids and r.random() < 0.5:
            # every region deleted through the API while the episode is open
            while live_ids:
                ops.append(("delregion", live_ids.pop()))
            for _ in range(r.randint(0, 2)):
                filler(True)
        how = r.random()
        if how < 0.65:
            goto(GRID_OUT)
        elif how < 0.9 and opts.get("at"):
            ops.append(("at", "ExcludeRegion", r.choice(["off", "disable"])))
            for _ in range(r.randint(0, 2)):
                filler(True)
            goto(GRID_OUT)
            ops.append(("at", "ExcludeRegion", r.choice(["on", "enable"])))
        # else: stay inside; the next episode's moves continue from here
    for _ in range(r.randint(0, 3)):
        filler(False)
    goto(GRID_OUT)
    if st["retracted"] and r.random() < 0.7:
        if opts.get("fw"):
            ops.append(("fw", "G11", ""))
        else:
            ops.append(("eonly", a))
        st["retracted"] = False
    goto(GRID_OUT)
    return ops


def encode_path(ops, nolead=False):
    """-> list of harness events: ('g', text) | ('at', cmd, params) | ('addregion', spec).
    nolead: decimals below one are written without the leading zero (`X.5`, `E-.25`)."""
    import re
    enc = Encoder()
    out = []
    for op in ops:
        if op[0] == "at":
            out.append(("at", op[1], op[2]))
        elif op[0] == "addregion":
            out.append(("addregion", op[1]))
        elif op[0] == "delregion":
            out.append(("delregion", op[1]))
        else:
            for t in enc.encode(op):
                if nolead and op[0] != "code":
                    t = re.sub(r"([A-Z])(-?)0\.(\d)", r"\1\2.\3", t)
                out.append(("g", t))
    return out


def random_opts(r):
    return {
        "fw": r.random() < 0.35,
        "rel": r.random() < 0.35,
        "inch": r.random() < 0.3,
        "arcs": r.random() < 0.3,
        "g92e": r.random() < 0.5,
        "at": r.random() < 0.35,
        "retract_len": r.choice([1.0, 0.5, 2.0]),
    }


EXT_POOL = ["G4", "M204", "M205", "M117", "M73", "M106", "M107", "M400", "M900", "M104", "M84", "T0"]


def random_ext(r):
    k = r.random()
    if k < 0.35:
        return dict(DEFERRED_CFG)
    if k < 0.45:
        return {}
    ext = collections.OrderedDict()
    for code in EXT_POOL:
        if r.random() < 0.6:
            ext[code] = r.choice(["exclude", "first", "last", "merge", "merge"])
    return ext


def random_cfg(r, regions=None):
    cfg = {
        "g90e": r.random() < 0.3,
        "enter": r.choice([None, ["M117 entering"], ["M106 S0", "M117 in"]]),
        "exit": r.choice([None, ["M117 leaving"], ["M107", "M117 out"]]),
        "ext": random_ext(r),
        "regions": list(DEFAULT_REGIONS if regions is None else regions),
    }
    k = r.random()
    if k < 0.12:
        # custom patterns without an anchor: `parameterPattern.match` still anchors them at the start
        cfg["at"] = [("ExcludeRegion", "off", "disable_exclusion"), ("ExcludeRegion", "on", "enable_exclusion")]
    elif k < 0.2:
        cfg["at"] = [("ExcludeRegion", "[ ]*(stop|off)(\\s|$)", "disable_exclusion"),
                     ("ExcludeRegion", "[Oo]n", "enable_exclusion"),
                     ("Region", None, "disable_exclusion")]
    elif k < 0.26:
        # patterns that accept an empty parameter text: the bare @-command triggers the action
        cfg["at"] = [("ExcludeRegion", "^\\s*$", "disable_exclusion"), ("ExcludeRegion", "on", "enable_exclusion"),
                     ("Other", "", "disable_exclusion")]
    elif k < 0.32:
        # case matters: the configured patterns contain upper-case letters
        cfg["at"] = [("ExcludeRegion", "^Skip-OFF$", "disable_exclusion"),
                     ("ExcludeRegion", "^Skip-ON$", "enable_exclusion")]
    return cfg


def random_regions(r):
    k = r.random()
    if k < 0.5:
        return list(DEFAULT_REGIONS)
    if k < 0.7:
        return [("R", "a", 10.0, 10.0, 20.0, 20.0)]
    if k < 0.8:
        return [("R", "a", 20.0, 20.0, 10.0, 10.0), ("R", "c", 40.0, 38.0, 50.0, 48.0)]
    if k < 0.88:
        return [("C", "a", 15.0, 15.0, 7.5), ("C", "b", 44.0, 43.0, 5.0)]
    if k < 0.91:
        # corners given with exactly one axis descending
        return [("R", "a", 10.0, 20.0, 20.0, 10.0), ("R", "c", 50.0, 38.0, 40.0, 48.0)]
    if k < 0.95:
        # a circle far off the diagonal (its mirror image about the diagonal lies on common points)
        return [("R", "a", 10.0, 10.0, 20.0, 20.0), ("C", "d", 30.0, 62.0, 6.0), ("C", "e", 70.5, 40.0, 4.0)]
    return []
