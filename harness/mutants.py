"""Mutation self-test of the checks (not part of any registered command).

Creates single-token mutants of the plugin's sources in a scratch worktree outside /repo and
/verif, keeps those the repository's own test-suite does not kill, and runs the property checks
against each (through ERP_SRC, so /repo itself is never touched).  Prints one line per mutant.

usage: python -m harness.mutants <n> <seed> [worktree]
"""
import json, os, random, re, subprocess, sys

ROOT = "/verif"
FILES = {
    "ExcludeRegionState.py": ["C03", "C04", "C05", "C06", "C01", "C02", "C09", "C14", "C08", "C20", "C15"],
    "GcodeHandlers.py": ["C03", "C01", "C16", "C19", "C09", "C14", "C02", "C05", "C08", "C20"],
    "RetractionState.py": ["C05", "C04", "C07", "C20", "C09"],
    "AxisPosition.py": ["C03", "C04", "C08", "C09", "C01"],
    "Position.py": ["C03", "C04", "C08", "C10"],
    "GcodeParser.py": ["C18", "C19", "C20", "C07", "C09", "C06"],
    "RectangularRegion.py": ["C17", "C12", "C01", "C13"],
    "CircularRegion.py": ["C17", "C12", "C01", "C13"],
    "StreamProcessor.py": ["C20"],
    "CommonMixin.py": ["C07", "C17"],
    "AtCommandAction.py": ["C14"],
    "__init__.py": ["C11", "C10", "C13", "C12", "C15", "C06"],
}
OPS = [(" < ", " <= "), (" <= ", " < "), (" > ", " >= "), (" >= ", " > "), (" and ", " or "), (" or ", " and "),
       (" + ", " - "), (" - ", " + "), (" is not None", " is None"), (" is None", " is not None"),
       (" == ", " != "), (" != ", " == "), ("True", "False"), ("False", "True"), ("if (not ", "if ("),
       (" * ", " / "), ("[0]", "[1]"), ("(1)", "(2)"), ("+= ", "-= "), ("-= ", "+= ")]


def sh(cmd, env=None, cwd=None, timeout=3600):
    p = subprocess.run(cmd, shell=isinstance(cmd, str), stdout=subprocess.PIPE, stderr=subprocess.STDOUT, env=env,
                       cwd=cwd, timeout=timeout)
    return p.returncode, p.stdout.decode("utf-8", "replace")


def sites(wt):
    out = []
    for fn in FILES:
        path = os.path.join(wt, "octoprint_excluderegion", fn)
        data = open(path, newline="").read().split("\r\n")
        indoc = False
        for ln, line in enumerate(data):
            st = line.strip()
            if st.count('"""') % 2 == 1:
                indoc = not indoc
                continue
            if st.startswith('"""') or st.startswith("'") or st.startswith('"'):
                continue        # one-line docstring / message text
            if indoc or st.startswith("#") or "_logger" in line or st.startswith(("import ", "from ", "def ", "class ", "@")):
                continue
            if fn == "__init__.py" and ("_settings" not in line and "Events." not in line and "state." not in line
                                        and "_activePrintJob" not in line and "script" not in line.lower()):
                continue
            code = line.split("  # ")[0]
            for (a, b) in OPS:
                for m in re.finditer(re.escape(a), code):
                    out.append((fn, ln, m.start(), a, b))
    return out


def main():
    n = int(sys.argv[1]); seed = int(sys.argv[2]); wt = sys.argv[3] if len(sys.argv) > 3 else "/tmp/wt/mut"
    if not os.path.isdir(wt):
        sh(["git", "-C", "/repo", "worktree", "add", "-q", "--detach", wt, "HEAD"])
    r = random.Random(seed)
    cand = sites(wt)
    r.shuffle(cand)
    done = 0
    for (fn, ln, col, a, b) in cand:
        if done >= n:
            break
        path = os.path.join(wt, "octoprint_excluderegion", fn)
        sh(["git", "-C", wt, "checkout", "--", "."])
        lines = open(path, newline="").read().split("\r\n")
        old = lines[ln]
        lines[ln] = old[:col] + b + old[col + len(a):]
        open(path, "w", newline="").write("\r\n".join(lines))
        rc, _ = sh(["/venv/bin/python", "-m", "py_compile", path])
        if rc != 0:
            continue
        rc, out = sh(["/venv/bin/python", os.path.join(ROOT, "harness", "baseline.py"), wt])
        if rc != 0:
            print("KILLED-BY-TESTS %s:%d %r -> %r" % (fn, ln + 1, a, b)); sys.stdout.flush()
            continue
        done += 1
        env = dict(os.environ, ERP_SRC=wt, VERIF_SEED=str(seed), VERIF_EVIDENCE_DIR=os.path.join(ROOT, ".work", "evidence-mut"))
        caught = None
        for pid in FILES[fn]:
            rc, out = sh(["./check", pid], env=env, cwd=ROOT)
            if rc == 1:
                nf = "no-failing-input-found" in out
                caught = (pid, nf)
                break
        print("%s %s:%d %r -> %r | %s   [%s]" % ("CAUGHT " if caught else "SURVIVED", fn, ln + 1, a, b,
                                                 ("%s%s" % (caught[0], " (no failing input)" if caught[1] else "")) if caught else "-",
                                                 old.strip()[:90]))
        sys.stdout.flush()
    sh(["git", "-C", wt, "checkout", "--", "."])


if __name__ == "__main__":
    main()
