"""Independent reference: an RS274/Marlin-style word reader and a Marlin-like printer simulator.

This file shares no code with the plugin. It is the Python twin of lean/ERP/Spec/Printer.lean and
lean/ERP/Spec/Reader.lean and is used as the implementation-side oracle (failing-input search,
replay) — never as a substitute for a theorem.
"""

DIGITS = "0123456789"


def read_number(s, i):
    """Marlin-like strtod restricted to plain decimals: returns (text, next_index) or (None, i)."""
    j = i
    if j < len(s) and s[j] in "+-":
        j += 1
    k = j
    while k < len(s) and s[k] in DIGITS:
        k += 1
    nd = k - j
    if k < len(s) and s[k] == ".":
        m = k + 1
        while m < len(s) and s[m] in DIGITS:
            m += 1
        if (m - (k + 1)) + nd > 0:
            # digits on at least one side; a trailing '.' without fraction digits is accepted by
            # strtod ("1." reads as 1) — the plugin's parser leaves the '.' behind; same value
            return s[i:m], m
    if nd > 0:
        return s[i:k], k
    return None, i


def read_words(cmd):
    """Return (code, [(letter, value-or-None, text-or-None)]) for one command line, or (None, [])."""
    s = cmd
    i = 0
    while i < len(s) and s[i] == " ":
        i += 1
    # optional line number
    if i < len(s) and s[i] in "Nn":
        j = i + 1
        while j < len(s) and s[j] in DIGITS:
            j += 1
        if j > i + 1:
            i = j
            while i < len(s) and s[i] == " ":
                i += 1
    if i >= len(s) or s[i] not in "GgMmTt":
        return None, []
    letter = s[i].upper()
    i += 1
    while i < len(s) and s[i] == " ":
        i += 1
    j = i
    while j < len(s) and s[j] in DIGITS:
        j += 1
    if j == i:
        return None, []
    code = letter + str(int(s[i:j]))
    i = j
    if i < len(s) and s[i] == "." and letter != "T":
        j = i + 1
        while j < len(s) and s[j] in DIGITS:
            j += 1
        if j > i + 1:
            i = j
    words = []
    while i < len(s):
        c = s[i]
        if c in ";*":
            break
        if c.isalpha() and c.isascii():
            i += 1
            while i < len(s) and s[i] == " ":
                i += 1
            txt, i2 = read_number(s, i)
            if txt is None:
                words.append((c.upper(), None, None))
            else:
                words.append((c.upper(), float(txt), txt))
                i = i2
        else:
            i += 1
    return code, words


def last_values(words):
    """last value *given* for each letter: a valueless repeat of a letter does not erase an earlier
    value (C19); a letter only ever seen without a value maps to None"""
    d = {}
    for (l, v, _t) in words:
        if v is not None or l not in d:
            d[l] = v
    return d


INCH = 25.4


class Printer(object):
    """Marlin-like reference printer. Positions in native mm; e is the logical E coordinate in mm."""

    def __init__(self, g90e=False):
        self.g90e = g90e
        self.pos = {"X": None, "Y": None, "Z": None}
        self.off = {"X": 0.0, "Y": 0.0, "Z": 0.0}    # native = logical*unit + off + hoff
        self.hoff = {"X": 0.0, "Y": 0.0, "Z": 0.0}
        self.abs = True
        self.eabs = True
        self.unit = 1.0
        self.e = 0.0
        self.fil = 0.0
        self.hw = 0.0
        self.fwret = False
        self.fwlog = []      # forwarded G10/G11 (code, text)
        self.error = None

    def depth(self):
        return self.hw - self.fil

    def xyz(self):
        return (self.pos["X"], self.pos["Y"], self.pos["Z"])

    def frame(self):
        return (self.abs, self.eabs, self.unit, tuple(sorted(self.off.items())),
                tuple(sorted(self.hoff.items())))

    def _target(self, axis, v):
        v = v * self.unit
        if self.abs:
            return v + (self.off[axis] + self.hoff[axis])
        return self.pos[axis] + v

    def execute(self, cmd):
        """Execute one command; returns dict(moved=set of axes changed, de=filament pushed)."""
        code, words = read_words(cmd)
        w = last_values(words)
        info = {"code": code, "moved": set(), "de": 0.0}
        if code in ("G0", "G1", "G2", "G3"):
            if code in ("G2", "G3"):
                has_centre = (w.get("R") is not None) or (w.get("I") or 0) != 0 or \
                    (w.get("J") or 0) != 0
                if not has_centre:
                    return info     # Marlin: bad arc, no motion
            for a in "XYZ":
                if w.get(a) is not None:
                    if self.pos[a] is None and not self.abs:
                        self.error = "relative move before homing"
                        continue
                    new = self._target(a, w[a])
                    if new != self.pos[a]:
                        info["moved"].add(a)
                    self.pos[a] = new
            if w.get("E") is not None:
                v = w["E"] * self.unit
                new = v if self.eabs else self.e + v
                de = new - self.e
                self.e = new
                self.fil += de
                self.hw = max(self.hw, self.fil)
                info["de"] = de
        elif code == "G92":
            for a in "XYZ":
                if w.get(a) is not None and self.pos[a] is not None:
                    self.off[a] = self.pos[a] - w[a] * self.unit - self.hoff[a]
            if w.get("E") is not None:
                self.e = w["E"] * self.unit
        elif code == "M206":
            for a in "XYZ":
                if w.get(a) is not None:
                    self.hoff[a] = w[a] * self.unit
        elif code == "G90":
            self.abs = True
            if self.g90e:
                self.eabs = True
        elif code == "G91":
            self.abs = False
            if self.g90e:
                self.eabs = False
        elif code == "M82":
            pass    # the plugin does not track M82/M83; kept out of the dialect
        elif code == "G20":
            self.unit = INCH
        elif code == "G21":
            self.unit = 1.0
        elif code == "G28":
            axes = [a for a in "XYZ" if a in w]
            if not axes:
                axes = ["X", "Y", "Z"]
            for a in axes:
                if self.pos[a] != 0.0:
                    info["moved"].add(a)
                self.pos[a] = 0.0
                self.off[a] = 0.0
        elif code == "G10":
            if "P" not in w and "L" not in w:
                self.fwlog.append(("G10", cmd))
                self.fwret = True
        elif code == "G11":
            self.fwlog.append(("G11", cmd))
            self.fwret = False
        return info
