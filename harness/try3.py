import random, sys, time, collections
from harness import suites
r = random.Random(int(sys.argv[1])); N = int(sys.argv[2]); which = sys.argv[3]
gens = {"parser": suites.gen_parser_case, "text": suites.misc_text_case, "region": suites.region_case,
        "arc": suites.arc_case, "plugin": suites.gen_plugin_case, "stream": suites.gen_stream_case,
        "filter": lambda r: suites.gen_filter_case(r, adversarial=r.random()<0.5, offsets=r.random()<0.2)}
t0=time.time()
cases = [gens[which](r) for _ in range(N)]
t1=time.time()
bad = suites.run_cases(cases)
print(which, "cases", N, "steps", sum(len(c.steps) for c in cases), "impl %.1fs driver %.1fs" % (t1-t0, time.time()-t1), "bad", len(bad))
for c, mm in bad[:4]:
    print("  ", {k: (str(v)[:300]) for k, v in mm.items()})
import json
for c, mm in bad[:3]:
    d = c.descr
    if d.get("kind") == "plugin":
        print("SETTINGS", d["settings"])
        for i, o in enumerate(d["ops"]): print("   ", i, o)
        print("  diff", mm.get("diff"), "step", mm["step"], mm["op"])
