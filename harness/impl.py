"""Access to the implementation under test (the working tree of /repo), in-process.

Everything the harness knows about the plugin's Python objects is in this file: how to build
them, how to drive them with a line-protocol operation, and how to digest their state.
"""
import os
import sys
import logging
import struct

sys.dont_write_bytecode = True
REPO = os.environ.get("ERP_SRC", "/repo")
if REPO not in sys.path:
    sys.path.insert(0, REPO)

import mock  # noqa: E402

from . import guard  # noqa: E402

from octoprint_excluderegion.ExcludeRegionState import ExcludeRegionState, IGNORE_GCODE_CMD  # noqa
from octoprint_excluderegion.GcodeHandlers import GcodeHandlers  # noqa: E402
from octoprint_excluderegion.GcodeParser import GcodeParser  # noqa: E402
from octoprint_excluderegion.RectangularRegion import RectangularRegion  # noqa: E402
from octoprint_excluderegion.CircularRegion import CircularRegion  # noqa: E402
from octoprint_excluderegion.ExcludedGcode import ExcludedGcode  # noqa: E402
from octoprint_excluderegion.AtCommandAction import AtCommandAction  # noqa: E402
from octoprint_excluderegion.AxisPosition import AxisPosition  # noqa: E402
from octoprint_excluderegion.Position import Position  # noqa: E402
from octoprint_excluderegion.RetractionState import RetractionState  # noqa: E402


class NullLogger(object):
    """A logger that drops everything (logging is outside the model)."""

    def isEnabledFor(self, level):  # noqa
        return False

    def _nop(self, *a, **k):
        return None

    debug = info = warn = warning = error = exception = _nop

    def __deepcopy__(self, memo):
        return self


LOGGER = NullLogger()

DEFAULT_AT = [
    ("ExcludeRegion", "^\\s*(enable|on)(\\s|$)", "enable_exclusion"),
    ("ExcludeRegion", "^\\s*(disable|off)(\\s|$)", "disable_exclusion"),
]


def hexf(x):
    """16 hex digits of an IEEE double (ints are converted first)."""
    return "%016x" % struct.unpack("<Q", struct.pack("<d", float(x)))[0]


def unhexf(s):
    return struct.unpack("<d", struct.pack("<Q", int(s, 16)))[0]


def hexs(s):
    """Hex-encode a unicode string (utf-8)."""
    return s.encode("utf-8").hex() or "-"


def unhexs(h):
    return "" if h == "-" else bytes.fromhex(h).decode("utf-8")


def make_region(spec):
    """spec: ('R', id, x1, y1, x2, y2) or ('C', id, cx, cy, r)."""
    if spec[0] == "R":
        return RectangularRegion(id=spec[1], x1=spec[2], y1=spec[3], x2=spec[4], y2=spec[5])
    return CircularRegion(id=spec[1], cx=spec[2], cy=spec[3], r=spec[4])


class Comm(object):
    def __init__(self, streaming=False):
        self.sent = []
        self.streaming = streaming

    def isStreaming(self):  # noqa
        return self.streaming

    def sendCommand(self, command, **kwargs):  # noqa
        self.sent.append(command)


def make_handlers(cfg=None):
    """Build ExcludeRegionState + GcodeHandlers from a config dict.

    cfg keys: g90e (bool), enter (list|None), exit (list|None), ext ({gcode: mode}),
    at ([(command, pattern|None, action)]), regions ([spec]).
    """
    cfg = cfg or {}
    st = ExcludeRegionState(LOGGER)
    st.g90InfluencesExtruder = bool(cfg.get("g90e", False))
    st.enteringExcludedRegionGcode = cfg.get("enter")
    st.exitingExcludedRegionGcode = cfg.get("exit")
    st.extendedExcludeGcodes = dict(
        (g, ExcludedGcode(g, m, "")) for g, m in (cfg.get("ext") or {}).items()
    )
    at = {}
    for (c, p, a) in cfg.get("at", DEFAULT_AT):
        at.setdefault(c, []).append(AtCommandAction(c, p, a, ""))
    st.atCommandActions = at
    for spec in cfg.get("regions", []):
        st.addRegion(make_region(spec))
    return GcodeHandlers(st, LOGGER)


_SPLIT = GcodeParser()


def split_cmd(cmd):
    """(gcode, subcode) the way the harness hands them to handleGcode (OctoPrint supplies them)."""
    p = _SPLIT.parse(cmd)
    return p.gcode, p.subCode


def err_kind(exc):
    """Map an exception to the small enum shared with the model."""
    if isinstance(exc, guard.ImplTimeout):
        return "hang"
    if isinstance(exc, ZeroDivisionError):
        return "zerodiv"
    if isinstance(exc, TypeError):
        return "type"
    if isinstance(exc, AssertionError):
        return "assert"
    if isinstance(exc, (ValueError, OverflowError)):
        return "value"
    if isinstance(exc, IndexError):
        return "index"
    return "other:" + type(exc).__name__


def exc_frames(exc):
    """Names of the plugin's functions on the traceback of an exception (innermost last)."""
    import traceback
    return [f.name for f in traceback.extract_tb(exc.__traceback__) if "octoprint_excluderegion" in f.filename]


def call_gcode(h, cmd, gcode=None, subcode=None):
    """Run handleGcode, returning ('none',) | ('ignore',) | ('list', [...]) | ('err', kind)."""
    if gcode is None:
        gcode, subcode = split_cmd(cmd)
    if gcode is None:
        return ("none",)
    try:
        with guard.watchdog():
            r = h.handleGcode(cmd, gcode, subcode)
    except Exception as exc:  # pylint: disable=broad-except
        return ("err", err_kind(exc), exc_frames(exc))
    if r is None:
        return ("none",)
    if r is IGNORE_GCODE_CMD or r == IGNORE_GCODE_CMD:
        return ("ignore",)
    return ("list", list(r))


def call_at(h, cmd, params, streaming=False):
    comm = Comm(streaming)
    try:
        with guard.watchdog():
            handled = h.handleAtCommand(comm, cmd, params)
    except Exception as exc:  # pylint: disable=broad-except
        return ("err", err_kind(exc), exc_frames(exc))
    return ("at", bool(handled), list(comm.sent))


def fnum(v):
    return "N" if v is None else hexf(v)


def axis_digest(a):
    return "%s,%s,%s,%d,%s" % (fnum(a.current), hexf(a.homeOffset), hexf(a.offset),
                               1 if a.absoluteMode else 0, hexf(a.unitMultiplier))


def pos_digest(p):
    if p is None:
        return "N"
    return "/".join(axis_digest(a) for a in (p.X_AXIS, p.Y_AXIS, p.Z_AXIS, p.E_AXIS))


def retr_digest(r):
    if r is None:
        return "N"
    return "%d,%d,%d,%s,%s,%s" % (
        1 if r.recoverExcluded else 0, 1 if r.allowCombine else 0, 1 if r.firmwareRetract else 0,
        fnum(r.extrusionAmount), fnum(r.feedRate), hexs(r.originalCommand))


def pending_digest(pc):
    out = []
    for k, v in pc.items():
        if isinstance(v, str):
            out.append("%s=S%s" % (hexs(k), hexs(v)))
        else:
            items = []
            for lab, val in v.items():
                if lab == "":
                    items.append("_:%s" % hexs(val))
                else:
                    items.append("%s:%s" % (lab, fnum(val)))
            out.append("%s=M%s" % (hexs(k), ";".join(items) or "-"))
    return ",".join(out) or "-"


def region_digest(r):
    if isinstance(r, RectangularRegion):
        return "R:%s:%s:%s:%s:%s" % (hexs(r.id), hexf(r.x1), hexf(r.y1), hexf(r.x2), hexf(r.y2))
    return "C:%s:%s:%s:%s" % (hexs(r.id), hexf(r.cx), hexf(r.cy), hexf(r.r))


def state_digest(st):
    """Digest of every modelled field of an ExcludeRegionState (logging/counters/time excluded)."""
    return " ".join([
        "pos=" + pos_digest(st.position),
        "fr=" + hexf(st.feedRate),
        "fru=" + hexf(st.feedRateUnitMultiplier),
        "en=%d" % (1 if st._exclusionEnabled else 0),  # pylint: disable=protected-access
        "ex=%d" % (1 if st.excluding else 0),
        "lr=" + retr_digest(st.lastRetraction),
        "lp=" + pos_digest(st.lastPosition),
        "pc=" + pending_digest(st.pendingCommands),
        "rg=" + (",".join(region_digest(r) for r in st.excludedRegions) or "-"),
    ])
