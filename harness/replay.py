"""Replay files: JSON {kind, property, cfg, events, note}. kind 'filter' is judged by oracle.judge."""
import json
import sys
from . import oracle


def load(path):
    with open(path) as f:
        return json.load(f)


def events_of(rep):
    return [tuple(e) for e in rep["events"]]


def cfg_of(rep):
    cfg = dict(rep.get("cfg") or {})
    if "regions" in cfg:
        cfg["regions"] = [tuple(s) for s in cfg["regions"]]
    if "at" in cfg:
        cfg["at"] = [tuple(a) for a in cfg["at"]]
    return cfg


def run_filter_replay(rep, props=None):
    cfg = cfg_of(rep)
    evs = events_of(rep)
    evs = [e if e[0] != "addregion" else ("addregion", tuple(e[1])) for e in evs]
    res, _h = oracle.run_events(cfg, evs)
    v = oracle.judge(cfg, evs, res, props or [rep["property"]])
    return [x for x in v if x[0] != "SKIP"], res


if __name__ == "__main__":
    for p in sys.argv[1:]:
        rep = load(p)
        v, res = run_filter_replay(rep)
        print(p, "->", "VIOLATES" if v else "ok")
        for x in v[:3]:
            print("    ", x)
        if "-v" in sys.argv:
            for e, r in zip(rep["events"], res):
                print("   ", e, "->", r)
