"""Replay files: JSON {kind, property, ...}. Each kind is judged on the implementation by the
property's oracle. `run_replay(rep)` returns a list of violation messages (empty = holds)."""
import json
import math
import sys
from . import oracle, oracle_text, impl, guard


def load(path):
    with open(path) as f:
        return json.load(f)


def events_of(rep, key="events"):
    out = []
    for e in rep.get(key, []):
        e = list(e)
        if e[0] == "addregion":
            e[1] = tuple(e[1])
        out.append(tuple(e))
    return out


def cfg_of(rep):
    cfg = dict(rep.get("cfg") or {})
    if "regions" in cfg:
        cfg["regions"] = [tuple(s) for s in cfg["regions"]]
    if "at" in cfg and cfg["at"] is not None:
        cfg["at"] = [tuple(a) for a in cfg["at"]]
    return cfg


def run_filter_replay(rep, props=None):
    cfg = cfg_of(rep)
    evs = events_of(rep)
    res, _h = oracle.run_events(cfg, evs)
    v = oracle.judge(cfg, evs, res, props or [rep["property"]])
    return [x for x in v if x[0] != "SKIP"], res


@guard.violation_on_hang(lambda m: [m])
def run_replay(rep):
    kind = rep.get("kind", "filter")
    if kind == "filter" and rep.get("property") == "C16":
        # an arc passing deep through a region must not be forwarded (last event of the replay)
        cfg = cfg_of(rep)
        evs = events_of(rep)
        res, _h = oracle.run_events(cfg, evs)
        if evs[-1][1] in oracle.forwarded(evs[-1], res[-1]):
            return ["step %d: arc %r passes deep through a region but was forwarded" % (len(evs) - 1, evs[-1][1])]
        return []
    if kind == "filter":
        v, _res = run_filter_replay(rep)
        return ["step %d: %s" % (i, m) for (_p, i, m) in v]
    if kind == "lossless":
        return oracle_text.c18_lossless(rep["text"])
    if kind == "checksum":
        return oracle_text.c18_checksum(rep["line"], rep["lineno"])
    if kind == "idempotent":
        return oracle_text.c18_idempotent(rep["line"])
    if kind == "idempotent_seq":
        return oracle_text.c18_idempotent_seq(rep["lines"])
    if kind == "reader":
        return oracle_text.c19_reader(rep["params"])
    if kind == "g28flags":
        return oracle_text.c19_g28(rep["params"])
    if kind == "arcwords":
        return oracle_text.c19_arc(rep["code"], rep["params"])
    if kind == "stream":
        v = oracle_text.c20_stream(cfg_of(rep), events_of(rep, "pre"), rep["lines"])
        return ["line %d: %s" % (i, m) for (i, m) in v]
    if kind == "arccenter":
        return oracle.c16_centre(rep["start"], rep["end"], rep["radius"], rep["clockwise"])
    if kind == "reencode":
        from . import oracle_geo
        return oracle_geo.c08_reencode(None, [tuple(x) for x in rep["regions"]],
                                       [tuple(o) for o in rep["ops"]], rep["variant"], rep["at_index"])
    if kind == "translate":
        from . import oracle_geo
        return oracle_geo.c08_translate([tuple(x) for x in rep["regions"]],
                                        [tuple(o) for o in rep["ops"]], tuple(rep["vec"]))
    if kind == "c10":
        from . import oracle_plugin
        return oracle_plugin.c10_fresh(rep["settings"], rep["history"], rep["program"])
    if kind == "region_point":
        from . import oracle_geo
        return oracle_geo.c17_point(tuple(rep["a"]), rep["x"], rep["y"])
    if kind == "region_contains":
        from . import oracle_geo
        return oracle_geo.c17_contains_region(tuple(rep["a"]), tuple(rep["b"]))
    if kind == "arc":
        from . import oracle_geo
        return oracle_geo.c16_arc(tuple(rep["start"]), tuple(rep["centre"]), rep["sweep"], rep["cw"])
    if kind == "plugin":
        from . import oracle_plugin
        # a replay of a known finding is judged without the known-class filter
        return oracle_plugin.judge_plugin(rep["settings"], rep["ops"], [rep["property"]],
                                          classify=not rep.get("known_class"))
    raise ValueError("unknown replay kind %r" % kind)


if __name__ == "__main__":
    for p in sys.argv[1:]:
        rep = load(p)
        v = run_replay(rep)
        print(p, "->", "VIOLATES" if v else "ok")
        for x in v[:3]:
            print("    ", x)
