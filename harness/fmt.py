"""Reference plain-decimal rendering of a float, independent of the plugin (uses decimal)."""
from decimal import Decimal


def format_number(v):
    """repr(v) with any exponent expanded exactly; text without exponent is left untouched."""
    s = repr(float(v)) if not isinstance(v, str) else v
    if "e" in s or "E" in s:
        return format(Decimal(s), "f")
    return s
