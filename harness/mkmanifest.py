"""Writes /verif/MANIFEST.json from the registry (claims exactly the properties that have theorems)."""
import json, os, sys
sys.path.insert(0, os.path.dirname(os.path.dirname(os.path.abspath(__file__))))
from harness import registry

TEXT = {
 "C09": ("Refinement theorem handleGcode_ok / C09_total: on every well-formed (homed) state and for every event sequence the exception-aware model returns .ok of the total model, stays well-formed and returns None / ignore / a non-empty list; model tied to the code by the filter, arc and stream correspondence suites.",
         "Structured layer proved in full; text entry point proved under the hypothesis that the command parses (regex completeness is checked by the parser suite only). Float-only failures (inf/nan, rounding making a sqrt argument negative) are outside the field model and are covered only by the arc/filter correspondence suites."),
 "C17": ("All four clauses are theorems over any linearly ordered field with a lawful hypot (instance: the reals): closed-rectangle and closed-disc characterisation, corner-order invariance, soundness of containsRegion for the four type pairs; region suite compares the Float instance with the implementation on boundary-biased inputs.",
         "Exact arithmetic; one-ulp effects of float hypot at a circle border are not covered by the theorem (the suite compares them bit for bit with the model, whose hypot is the correctly rounded one)."),
}
DEFAULT_NOTE = "see DESIGN.md section 7 for this property"

def main():
    checks = []
    na = []
    for pid in sorted(registry.PROPS):
        P = registry.PROPS[pid]
        if P["theorems"]:
            text, note = TEXT.get(pid, ("Lean theorems %s about the model, tied to /repo by translator and correspondence suites %s." % (", ".join(P["theorems"][:4]), ", ".join(P["suites"])), DEFAULT_NOTE))
            checks.append({
                "property_id": pid,
                "quick_cmd": "./check %s --tier quick" % pid,
                "thorough_cmd": "./check %s --tier thorough" % pid,
                "evidence_file": "/verif/evidence/%s.json" % pid,
                "replay_cmd_template": "./check %s --replay {path}" % pid,
                "engine": "lean4-model+correspondence",
                "level_claimed": {"category": "proof", "text": text, "design_ref": "DESIGN.md section 7 (%s)" % pid},
                "level_note": note + " Trusted base: Lean kernel + propext/Classical.choice/Quot.sound; translator; correspondence harness; exact-arithmetic idealisation; OctoPrint, logging, time, uuid4 not modelled.",
                "technique": "Lean 4 theorems about a hand-written model; model tied to the source by a translator (regexes, constants, tables) and a bit-exact differential correspondence check",
            })
        else:
            na.append({"property_id": pid, "reason": "not claimed yet: the Lean theorems for this property are still being written (the correspondence suites and oracles already exist); see DESIGN.md"})
    man = {
        "version": 1,
        "setup_cmd": "cd /verif && ./setup.sh",
        "hooks": {"guard": "EXCLUDEREGION_VERIF", "enable": "no instrumentation: the harness imports the plugin's modules in-process; the guard is unused",
                  "baseline_off_cmd": "cd /repo && /venv/bin/python -m pytest -ra -q -p no:cacheprovider --timeout=900 --continue-on-collection-errors",
                  "source_commits": json.load(open(os.path.join(os.path.dirname(__file__), "..", "fix_commits.json"))),
                  "add_only": True},
        "engines": [{"name": "lean4-model+correspondence", "path": "/verif/lean", "serves_properties": [c["property_id"] for c in checks],
                     "kind_free_text": "Lean 4 model + theorems (lake project, Mathlib modules imported individually), translator harness/translate.py, line-protocol driver erpdrv, Python correspondence harness"}],
        "checks": checks,
        "not_applicable": na,
        "notes": "All checks share ./check <id>; VERIF_SEED and VERIF_TIER are honoured. Known findings: known_findings.json.",
    }
    json.dump(man, open(os.path.join(os.path.dirname(__file__), "..", "MANIFEST.json"), "w"), indent=1)
    print("claimed:", [c["property_id"] for c in checks])
main()
