"""Writes /verif/MANIFEST.json from the registry (claims exactly the properties that have theorems)."""
import json, os, sys
sys.path.insert(0, os.path.dirname(os.path.dirname(os.path.abspath(__file__))))
from harness import registry

D = "Dialect of the X/Y/Z theorems: G92 without valued X/Y/Z and no M206 (K-D15), arcs in absolute positioning and I/J form (K-D5, K-D10), no G28 inside an open episode (K-D18). "
TEXT = {
 "C01": ("no_motion_into_region / episode_no_motion_linear over the joint invariant InvXYZ (step_inv): for every program of the dialect, any regions and region additions, a forwarded command that moves X/Y ends outside every enabled region and nothing forwarded while an episode stays open moves X/Y/Z.",
         D + "Arcs enter through the sampling argument of C16 (planArc_covers). K-D5 and K-D18 are known findings with replays."),
 "C02": ("C02_identity: if no step hits a region (no regions, or exclusion disabled) every command is forwarded unchanged and the state stays quiet, for every program.", D),
 "C03": ("good_run / C03_resync: for every dialect program (absolute or relative, mm or inch), whenever no episode is open the printer's X/Y/Z position, offsets, modes and units equal the unfiltered file's; exit_zorder: the XY travel of the exit sequence happens at max(previous Z, target Z), raise before, lowering after.", D),
 "C04": ("C04_coordinate (no episode open => printer's E axis equals the file's), C04_amount / C04_amount_arc (an extruding command handled outside regions is reached at the file's E coordinate, retraction depth and firmware flag, so it pushes the file's amount), C04_suppressed / _arc (a command that is not forwarded pushes no filament), over the invariant EInv (sys_step_einv) for every program of the protocol.",
         "Protocol (EStep.EDialect): absolute extrusion, moves never retract, E-only retract/recover cycles of one length A or G10/G11, not mixed, E-only extrusions allowed while not retracted, G92 E anywhere; plus the X/Y/Z dialect. " + D),
 "C05": ("C05_depth (virt.depth <= phys.depth, phys.depth in {0, A} resp. 0 with firmware parity), C05_never_deeper (phys.depth <= max of the file's depth so far), C05_recovered_first (an extruding command is reached at the file's depth: the owed recovery is issued exactly once before it), C05_firmware_params; retractParams_spec / render_fw (exact evaluation of the regenerated GCODE_PARAMS_REGEX: a synthesised G10/G11 is the code followed by exactly the parameters of the retraction it stands for, for every spelling of the code word); admissibility lemmas show the protocol is inhabited.",
         "Same protocol as C04. " + D),
 "C09": ("handleGcode_ok / C09_total: on every well-formed (homed) state and for every event sequence the exception-aware model returns .ok of the total model, stays well-formed and returns None / ignore / a non-empty list; C18.parse_total closes the text entry point (the line regex matches at every offset); C09_run_outputs / C09_run_strings: along every event sequence every forwarded command string (original, replacement, deferred, script, @-command output) is non-empty when the commands handed in and the script lines are.",
         "Float-only failures (inf/nan, rounding making a sqrt argument negative) are outside the field model and are covered only by the arc/filter correspondence suites."),
 "C16": ("Over the reals: samples on the circle at equal angular steps, consecutive samples <= 1 apart, last sample = commanded end point, travel_range (direction and size of the sweep), end_at_travel, planArc_covers (every point of the commanded arc is within one unit of a tested point); centre_partial + centre_counterexample for the radius form.",
         "K-D10 (radius-form centre wrong unless the chord is axis-aligned) is a known finding."),
 "C17": ("All four clauses are theorems over any linearly ordered field with a lawful hypot (instance: the reals): closed-rectangle and closed-disc characterisation, corner-order invariance, soundness of containsRegion for the four type pairs; region suite compares the Float instance with the implementation on boundary-biased inputs.",
         "Exact arithmetic; one-ulp effects of float hypot at a circle border are not covered by the theorem (the suite compares them bit for bit with the model, whose hypot is the correctly rounded one)."),
 "C18": ("gcodeLine_spans / gcodeLine_progress / gcodeLine_total about the regex regenerated from the source, parse_lossless, parse_total, parseLines_lossless: parsing never fails, yields non-empty lines whose full texts concatenate to the input byte for byte. NormCmd.match_eval evaluates the line regex exactly (first-match semantics, lazy parameter group) on every normalised command string; parse_plain: for every source without a backslash a parsed command has exactly that normalised shape (greedy star = last success, lazy group = first success, success independent of captures); C18_idempotent_noescape: re-parsing commandString returns the same code, sub-code, parameters, line number and normalised string; C18_checksum_validates_noescape: a line rendered with line number and checksum parses back with checksum = computeChecksum(text), so validate() accepts it.",
         "The idempotence and checksum theorems cover every source text without a backslash; lines with backslash escapes inside the parameters are decided by the parser/text correspondence suites plus the oracle (idempotent, idempotent_seq, checksum)."),
 "C19": ("scan_eq: REGEX_PARAMETER_OR_STR.match is a maximal-munch scanner for every text and offset; parameterItems_eq_spec: the letter items equal the reference reading Spec/Reader.specRead for every text; lastValue_spec, g0_acts_on_last_values, track_gcode: handlers act on the last value.",
         "The Lean reference reader is tied to the independent Python reader (refprinter.read_words) by the text suite; they differ only in consuming a trailing decimal point."),
}
DEFAULT_NOTE = "see DESIGN.md section 0.3 (row of this property) for what is proved and what is decided by correspondence and oracle only"

def main():
    checks = []
    na = []
    for pid in sorted(registry.PROPS):
        P = registry.PROPS[pid]
        if P["theorems"]:
            text, note = TEXT.get(pid, ("Lean theorems %s about the model, tied to /repo by translator and correspondence suites %s." % (", ".join(P["theorems"][:4]), ", ".join(P["suites"])), DEFAULT_NOTE))
            checks.append({
                "property_id": pid,
                "quick_cmd": "./check %s --tier quick" % pid,
                "thorough_cmd": "./check %s --tier thorough" % pid,
                "evidence_file": "/verif/evidence/%s.json" % pid,
                "replay_cmd_template": "./check %s --replay {path}" % pid,
                "engine": "lean4-model+correspondence",
                "level_claimed": {"category": "proof", "text": text, "design_ref": "DESIGN.md section 0.3, row %s (as built); section 7 (%s) is the original plan" % (pid, pid)},
                "level_note": note + " Trusted base: Lean kernel + propext/Classical.choice/Quot.sound; translator; correspondence harness; exact-arithmetic idealisation; OctoPrint, logging, time, uuid4 not modelled.",
                "technique": "Lean 4 theorems about a hand-written model; model tied to the source by a translator (regexes, constants and tables, region geometry, axis / arc / retraction / exit-sequence arithmetic compiled from the Python AST and proved equal to the model) and a bit-exact differential correspondence check",
            })
        else:
            na.append({"property_id": pid, "reason": "not claimed yet: the Lean theorems for this property are still being written (the correspondence suites and oracles already exist); see DESIGN.md"})
    man = {
        "version": 1,
        "setup_cmd": "cd /verif && ./setup.sh",
        "hooks": {"guard": "EXCLUDEREGION_VERIF", "enable": "no instrumentation: the harness imports the plugin's modules in-process; the guard is unused",
                  "baseline_off_cmd": "cd /repo && /venv/bin/python -m pytest -ra -q -p no:cacheprovider --timeout=900 --continue-on-collection-errors",
                  "source_commits": json.load(open(os.path.join(os.path.dirname(__file__), "..", "fix_commits.json"))),
                  "add_only": True},
        "engines": [{"name": "lean4-model+correspondence", "path": "/verif/lean", "serves_properties": [c["property_id"] for c in checks],
                     "kind_free_text": "Lean 4 model + theorems (lake project, Mathlib modules imported individually), translator harness/translate.py, line-protocol driver erpdrv, Python correspondence harness"}],
        "checks": checks,
        "not_applicable": na,
        "notes": "All checks share ./check <id>; VERIF_SEED and VERIF_TIER are honoured. Known findings: known_findings.json.",
    }
    json.dump(man, open(os.path.join(os.path.dirname(__file__), "..", "MANIFEST.json"), "w"), indent=1)
    print("claimed:", [c["property_id"] for c in checks])
main()
