import sys
from . import checker
if __name__ == "__main__":
    try:
        sys.exit(checker.main(sys.argv))
    except SystemExit:
        raise
    except Exception as exc:  # pylint: disable=broad-except
        import traceback
        traceback.print_exc()
        print("internal error: %s" % exc)
        sys.exit(2)
