import random, sys, collections
from harness import gen, oracle
r = random.Random(int(sys.argv[1])); N = int(sys.argv[2])
kinds = collections.OrderedDict()
skip = 0
for t in range(N):
    regions = gen.random_regions(r)
    cfg = gen.random_cfg(r, regions)
    opts = gen.random_opts(r)
    if cfg["g90e"]: opts["rel"] = False
    ops = gen.gen_path(r, regions, opts)
    evs = gen.encode_path(ops)
    res, h = oracle.run_events(cfg, evs)
    v = oracle.judge(cfg, evs, res)
    if v and v[-1][0] == "SKIP": skip += 1; v = v[:-1]
    for (p, i, msg) in v[:1]:
        key = p + ":" + msg.split(" ")[0] + " " + " ".join(msg.split(" ")[1:3])
        if key not in kinds:
            kinds[key] = (p, i, msg, cfg, opts, evs[: i + 1])
for k, (p, i, msg, cfg, opts, evs) in kinds.items():
    print("==", p, i, msg); print("   opts", {k: v for k, v in opts.items() if v}); print("   ", [e[1:] for e in evs][-14:])
print("done", N, "skip", skip, "kinds", len(kinds))
