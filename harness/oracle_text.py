"""Text-level oracles: parser losslessness / checksum / idempotence (C18), reader agreement (C19),
stream processor vs. live hooks (C20). Implementation side only."""
import copy
import io

from . import impl, guard
from .refprinter import read_words


# --------------------------------------------------------------------------- C18

@guard.violation_on_hang(lambda m: [m])
def c18_lossless(text, parser=None):
    """parseLines consumes the text completely and fullText concatenates back to it.
    `parser` may be a used parser object (state from earlier lines must not leak)."""
    p = parser or impl.GcodeParser()
    out = []
    pieces = []
    pos = 0
    try:
        p.parse(text, 0)
        guard = 0
        while True:
            guard += 1
            if guard > len(text) + 5:
                out.append("parse does not advance at offset %d" % p.offset)
                break
            if p.offset != pos:
                out.append("line starts at %d, previous ended at %d" % (p.offset, pos))
            if p.fullText != text[p.offset:p.offset + p.length]:
                out.append("fullText %r != source[%d:%d] %r" % (
                    p.fullText, p.offset, p.offset + p.length, text[p.offset:p.offset + p.length]))
            pieces.append(p.fullText)
            pos = p.offset + p.length
            if pos >= len(text):
                break
            if p.length == 0:
                out.append("zero-length line before end of input at %d" % p.offset)
                break
            p.parse()
    except Exception as exc:  # pylint: disable=broad-except
        out.append("exception %s: %s" % (type(exc).__name__, exc))
        return out
    if "".join(pieces) != text:
        out.append("concatenated fullText %r != input %r" % ("".join(pieces), text))
    # the generator API itself: `parseLines` must stop, having yielded lines that tile the text
    try:
        q = impl.GcodeParser()
        texts = []
        for n, line in enumerate(q.parseLines(text)):
            if n > len(text) + 5:
                out.append("parseLines does not stop: more than %d lines for %d characters" % (n, len(text)))
                break
            texts.append(line.fullText)
        else:
            if "".join(texts) != text:
                out.append("parseLines: concatenated fullText %r != input %r" % ("".join(texts), text))
    except Exception as exc:  # pylint: disable=broad-except
        out.append("parseLines: exception %s: %s" % (type(exc).__name__, exc))
    return out


@guard.violation_on_hang(lambda m: [m])
def c18_checksum(line, lineno):
    """A line rendered with line number and checksum validates against its own checksum."""
    out = []
    p = impl.GcodeParser()
    try:
        p.parse(line)
        if p.gcode is None:
            return out
        p.lineNumber = lineno
        rendered = p.stringify()
        q = impl.GcodeParser().parse(rendered)
        if q.lineNumber != lineno or q.checksum is None:
            out.append("rendered %r lost its line number/checksum" % (rendered,))
        else:
            q.validate()
    except ValueError as exc:
        out.append("rendered line does not validate: %s" % (exc,))
    except Exception as exc:  # pylint: disable=broad-except
        out.append("exception %s: %s" % (type(exc).__name__, exc))
    return out


@guard.violation_on_hang(lambda m: [m])
def c18_idempotent(line):
    """Re-parsing commandString yields the same gcode, subCode, parameters, commandString."""
    out = []
    try:
        p = impl.GcodeParser().parse(line)
        cs = p.commandString
        q = impl.GcodeParser().parse(cs)
        a = (p.gcode, p.subCode, p.parameters, cs)
        b = (q.gcode, q.subCode, q.parameters, q.commandString)
        if a != b:
            out.append("parse(%r) = %r but re-parsing its commandString gives %r" % (line, a, b))
    except Exception as exc:  # pylint: disable=broad-except
        out.append("exception %s: %s" % (type(exc).__name__, exc))
    return out


@guard.violation_on_hang(lambda m: [m])
def c18_idempotent_seq(lines):
    """Idempotence of normalisation on parser objects that are re-used from line to line."""
    out = []
    p = impl.GcodeParser()
    q = impl.GcodeParser()
    try:
        for line in lines:
            p.parse(line)
            cs = p.commandString
            a = (p.gcode, p.subCode, p.parameters, cs)
            q.parse(cs)
            b = (q.gcode, q.subCode, q.parameters, q.commandString)
            if a != b:
                out.append("after %r: parse(%r) = %r but re-parsing its commandString gives %r" % (lines, line, a, b))
                break
            fresh = impl.GcodeParser().parse(line)
            c = (fresh.gcode, fresh.subCode, fresh.parameters, fresh.commandString)
            if a != c:
                out.append("parse(%r) on a used parser gives %r, on a fresh parser %r" % (line, a, c))
                break
    except Exception as exc:  # pylint: disable=broad-except
        out.append("exception %s: %s" % (type(exc).__name__, exc))
    return out


# --------------------------------------------------------------------------- C19

@guard.violation_on_hang(lambda m: [m])
def c19_reader(params):
    """parameterItems (letter items) equals the reference reading of the same word string."""
    out = []
    try:
        p = impl.GcodeParser().parse("G1 " + params)
        if p.gcode != "G1":
            return out
        items = [(k, v) for (k, v) in p.parameterItems() if k != ""]
    except Exception as exc:  # pylint: disable=broad-except
        return ["exception %s: %s" % (type(exc).__name__, exc)]
    _code, words = read_words("G1 " + params)
    ref = [(l, v) for (l, v, _t) in words]
    if items != ref:
        out.append("parameterItems(%r) = %r, reference reading %r" % (params, items, ref))
    # the move handler acts on the last value given for each letter (valueless repeats ignored)
    last = {}
    for (l, v) in ref:
        if v is not None:
            last[l] = v
    try:
        h = impl.make_handlers({})
        impl.call_gcode(h, "G28")
        impl.call_gcode(h, "G1 X50 Y60 Z7 E2")          # somewhere else: a zero word is a word too
        before = {"X": 50.0, "Y": 60.0, "Z": 7.0, "E": 2.0}
        res = impl.call_gcode(h, "G1 " + params, "G1", None)
        if res[0] == "err":
            out.append("G1 %s raised %s" % (params, res[1]))
        else:
            pos = h.state.position
            for (letter, axis) in (("X", pos.X_AXIS), ("Y", pos.Y_AXIS), ("Z", pos.Z_AXIS), ("E", pos.E_AXIS)):
                want = last.get(letter, before[letter])
                if axis.current != want and not (axis.current != axis.current and want != want):
                    out.append("after 'G1 %s' the tracked %s is %r, the last value given is %r"
                               % (params, letter, axis.current, want))
    except Exception as exc:  # pylint: disable=broad-except
        out.append("exception %s: %s" % (type(exc).__name__, exc))
    return out


@guard.violation_on_hang(lambda m: [m])
def c19_arc(code, params):
    """G2/G3 act on the last value given for each of X Y Z E I J (valueless words ignored, wherever
    they stand): the tracked end position is the commanded one when a centre offset is given."""
    out = []
    _code, words = read_words(code + " " + params)
    last = {}
    for (l, v, _t) in words:
        if v is not None:
            last[l] = v
    if "R" in last:
        return out
    try:
        if impl.GcodeParser().parse(code + " " + params).gcode != code:
            return out
        h = impl.make_handlers({})
        impl.call_gcode(h, "G28")
        impl.call_gcode(h, "G1 X50 Y60 Z7 E2")
        before = {"X": 50.0, "Y": 60.0, "Z": 7.0, "E": 2.0}
        res = impl.call_gcode(h, code + " " + params, code, None)
        if res[0] == "err":
            return ["%s %s raised %s" % (code, params, res[1])]
        acts = bool(last.get("I") or last.get("J"))
        pos = h.state.position
        for (letter, axis) in (("X", pos.X_AXIS), ("Y", pos.Y_AXIS), ("Z", pos.Z_AXIS), ("E", pos.E_AXIS)):
            want = last.get(letter, before[letter]) if acts else before[letter]
            if abs(axis.current - want) > 1e-9:
                out.append("after '%s %s' the tracked %s is %r, the last value given is %r"
                           % (code, params, letter, axis.current, want))
    except Exception as exc:  # pylint: disable=broad-except
        out.append("exception %s: %s" % (type(exc).__name__, exc))
    return out


# --------------------------------------------------------------------------- C20

class _Stream(object):
    def __init__(self, data):
        self.data = data

    def read(self, *a):  # pragma: no cover
        return b""

    def close(self):
        pass


@guard.violation_on_hang(lambda m: [m])
def c19_g28(params):
    """G28 acts on the axis letters present (valued or not): those axes are homed, all three when
    no X/Y/Z word is present; other flag words change nothing about that."""
    out = []
    _code, words = read_words("G28 " + params)
    named = set(l for (l, _v, _t) in words if l in "XYZ")
    try:
        if impl.GcodeParser().parse("G28 " + params).gcode != "G28":
            return out
        h = impl.make_handlers({})
        impl.call_gcode(h, "G28")
        impl.call_gcode(h, "G1 X50 Y60 Z7")
        res = impl.call_gcode(h, "G28 " + params, "G28", None)
        if res[0] == "err":
            return ["G28 %s raised %s" % (params, res[1])]
        pos = h.state.position
        for (letter, axis, was) in (("X", pos.X_AXIS, 50.0), ("Y", pos.Y_AXIS, 60.0), ("Z", pos.Z_AXIS, 7.0)):
            want = 0.0 if (letter in named or not named) else was
            if axis.current != want:
                out.append("after 'G28 %s' the tracked %s is %r, expected %r (axes named: %s)"
                           % (params, letter, axis.current, want, "".join(sorted(named)) or "none"))
    except Exception as exc:  # pylint: disable=broad-except
        out.append("exception %s: %s" % (type(exc).__name__, exc))
    return out


def make_stream_processor(handlers):
    from octoprint_excluderegion.StreamProcessor import StreamProcessor
    return StreamProcessor(io.BytesIO(b""), handlers)


def split_lines_keepends(text):
    return text.splitlines(True)


def live_result(h, line):
    """What the live hooks do with this line (OctoPrint strips the line and splits @-commands)."""
    p = impl.GcodeParser().parse(line)
    if p.type is not None:
        cmd = p.stringify(includeLeadingWhitespace=False, includeLineNumber=False,
                          includeComment=False, includeEol=False)
        r = impl.call_gcode(h, cmd, p.gcode, p.subCode)
        return ("g", cmd, r)
    if p.text.startswith("@"):
        pieces = p.text.split(None, 1)
        r = impl.call_at(h, pieces[0][1:], "" if len(pieces) < 2 else pieces[1])
        return ("at", p.text, r)
    return ("other", line, None)


@guard.violation_on_hang(lambda m: [(0, m)])
def c20_stream(cfg, pre_events, lines):
    """process_line on a copy vs. the live handlers on a twin, line for line; isolation."""
    from . import oracle
    out = []
    _res, live = oracle.run_events(cfg, pre_events)
    _res, twin = oracle.run_events(cfg, pre_events)
    before = impl.state_digest(live.state)
    sp = make_stream_processor(live)
    eol = None
    for idx, line in enumerate(lines):
        try:
            got = sp.process_line(line)
        except Exception as exc:  # pylint: disable=broad-except
            out.append((idx, "process_line raised %s: %s" % (type(exc).__name__, exc)))
            break
        pl = impl.GcodeParser().parse(line)
        if pl.eol:
            eol = pl.eol      # the processor follows the most recent line ending
        kind, cmd, r = live_result(twin, line)
        use = eol or "\n"
        handled = None
        if kind == "at":
            # whether some configured action matches is decided here, not taken from the hook's return value
            pieces = cmd.split(None, 1)
            handled = bool(oracle._at_actions(cfg, pieces[0][1:], "" if len(pieces) < 2 else pieces[1]))
        if kind == "other" or r[0] == "none" or (kind == "at" and r[0] == "at" and not handled):
            want = line
        elif r[0] == "ignore":
            want = None
        elif r[0] == "list":
            want = use.join(r[1]) + use
        elif r[0] == "at":
            want = (use.join(r[2]) + use) if r[2] else None
        else:
            want = ("ERR", r)
        exact = (want is None) or (want == line) or isinstance(want, tuple)
        if want != got and (exact or not _same_modulo_indent(want, got, use)):
            out.append((idx, "process_line(%r) = %r, live hooks give %r" % (line, got, want)))
    after = impl.state_digest(live.state)
    if before != after:
        out.append((len(lines), "live state changed by stream processing"))
    return out


def _same_modulo_indent(want, got, eol):
    if want is None or got is None or not isinstance(want, str):
        return False
    a = [x.lstrip(" ") for x in want.split(eol)]
    b = [x.lstrip(" ") for x in got.split(eol)]
    return a == b
